// Package c15 decides property C15: pattern matching always uses the
// expression that was asked for.
//
// Generator: per case 3..30 distinct patterns (valid and invalid, built from a
// few stems by wrappers so that many share a prefix and some differ only by a
// flag or an anchor), 4..10 subject strings, and either a sequential history of
// uses or 1..64 goroutines each running its own sequence of uses (released
// together by a barrier, optionally re-synchronised before every step, with
// GOMAXPROCS drawn from {1,2,4,16} and runtime.Gosched() at generated points).
// A use goes through validate.Pattern, through the schema keyword `pattern`, or
// through `patternProperties` (open: the matched member is checked against
// {"type":"null"}; closed: additionalProperties false) in validate.AgainstSchema.
//
// Oracle: the standard regexp package, consulted sequentially before any
// goroutine starts; goroutines only compare. After the case (in sequential mode
// after every step) the content of the library's cache is read through the
// verif hook: key == expression text, every valid pattern used is present, no
// invalid pattern and no pattern nobody asked for is present.
package c15

import (
	"encoding/json"
	"fmt"
	"regexp"
	"runtime"
	"sort"
	"strings"
	"sync"
	"testing"

	"github.com/go-openapi/spec"
	"github.com/go-openapi/strfmt"
	"github.com/go-openapi/validate"
	"pgregory.net/rapid"

	"verif/internal/ev"
	"verif/internal/hook"
)

func TestMain(m *testing.M) {
	ev.Describe("per case 3..30 distinct patterns (stem x wrapper families: shared prefixes, variants differing only by flag/anchor/quantifier, truncated and otherwise invalid variants), 4..10 subjects, "+
		"and either a sequential history (3..60 uses, first-time and repeated) or 1..64 goroutines x 1..6 uses each (barrier release, optional per-step re-synchronisation, GOMAXPROCS in {1,2,4,16}, generated Gosched points); "+
		"uses go through validate.Pattern, schema `pattern`, open and closed `patternProperties` in AgainstSchema; the cache is emptied at the start of every case. "+
		"Non-trivial = (concurrent case) at least 2 goroutines whose barrier-released first use (or same-numbered use when steps are re-synchronised) compiles different patterns not used before in the case, "+
		"or (either mode) an invalid pattern used after a valid one with the same prefix (common prefix of at least min(3, len of the shorter) bytes, in history order resp. program order of one goroutine); distinct by content hash of the case",
		"validity and match results are those of Go's regexp package (regexp.Compile / MatchString) on the very same pattern text, computed before the library is called",
		"'reported as invalid' is observable only through validate.Pattern and the schema keyword `pattern` (message contains 'but pattern is invalid'); an invalid patternProperties key is ignored by the library and by draft 4 alike, so there the oracle is 'behaves as if the key were absent'",
		"the schema keyword `pattern` with the empty pattern is the absent keyword (spec.Schema cannot tell them apart); it accepts everything and compiles nothing",
		"the cache-content invariant (every valid pattern used is present after all goroutines joined; nothing else is) is an internal strengthening taken from DESIGN.md, read through the verif hook; without the verif tag it is skipped and the cache is not reset",
		"every use owns its schema object and instance (built from JSON text before the goroutines start), so sharing of caller data between goroutines (C05/C12) is not part of this check",
		"interleavings are sampled, not enumerated: the Go scheduler decides; data races are detected by running the same property under -race")
	if !hook.Enabled {
		ev.Note("built without -tags verif: cache not reset between cases, cache-content invariant not checked")
	}
	ev.Main(m, "C15")
}

// ---------------------------------------------------------------------------
// case

// entry points
const (
	eHelper   = 0 // validate.Pattern
	eSchema   = 1 // {"pattern":P} against the string S
	ePPOpen   = 2 // {"patternProperties":{P..:{"type":"null"}}} against {S:1}
	ePPClosed = 3 // {"patternProperties":{P..:{}},"additionalProperties":false} against {S:1}
	// eClosedBare: {"additionalProperties":false} against {S:1} — no pattern at all: nothing compiled for an
	// earlier schema may let the member through (validators are recycled between these one-shot calls)
	eClosedBare = 4
)

var entryNames = []string{"helper", "schema-pattern", "pp-open", "pp-closed", "closed-no-patterns"}

// A Step is one use of one (for patternProperties: one to three) pattern(s).
type Step struct {
	E int   `json:"e"`           // entry point
	P []int `json:"p"`           // indices into Patterns
	S int   `json:"s"`           // index into Subjects
	Y bool  `json:"y,omitempty"` // runtime.Gosched() right before the use
}

type Case struct {
	Patterns []string `json:"patterns"`
	Subjects []string `json:"subjects"`
	Conc     bool     `json:"conc"`
	Procs    int      `json:"procs,omitempty"`   // GOMAXPROCS of a concurrent case
	Barrier  int      `json:"barrier,omitempty"` // 0 none, 1 channel close, 2 spinning counter
	Waves    bool     `json:"waves,omitempty"`   // re-synchronise all goroutines before every step number
	Seq      []Step   `json:"seq,omitempty"`     // sequential history
	Go       [][]Step `json:"go,omitempty"`      // one sequence per goroutine
}

// ---------------------------------------------------------------------------
// generator

// uni draws a uniformly distributed int in [0,n) from fair bits
// (rapid's IntRange and SampledFrom favour small values and bounds).
func uni(t *rapid.T, n int, label string) int {
	if n <= 1 {
		return 0
	}
	v := 0
	for _, b := range rapid.SliceOfN(rapid.Bool(), 11, 11).Draw(t, label) {
		v <<= 1
		if b {
			v |= 1
		}
	}
	return v % n
}

func coin(t *rapid.T, num, den int, label string) bool { return uni(t, den, label) < num }

var stems = []string{
	"a", "ab", "abc", "abcd", "^ab", "a.c", "[a-c]", `\d`, `\d+`, `\p{L}`, "x*", "a|b", "é", "A", `\.`, "1", "a b", "{", "ab|abc", "(a)(b)",
}

// wrappers build a pattern from a stem; about one third of them yield invalid patterns.
var wrappers = []func(s string) string{
	func(s string) string { return s },
	func(s string) string { return "^" + s },
	func(s string) string { return s + "$" },
	func(s string) string { return "^" + s + "$" },
	func(s string) string { return "(?i)" + s },
	func(s string) string { return s + "+" },
	func(s string) string { return s + "*" },
	func(s string) string { return s + "?" },
	func(s string) string { return s + "|b" },
	func(s string) string { return "(" + s + ")" },
	func(s string) string { return "(?:" + s + ")" },
	func(s string) string { return s + "{2}" },
	func(s string) string { return s + "{1,2}" },
	func(s string) string { return s + "{0}" },
	func(s string) string { return "(?s)" + s },
	func(s string) string { return s + ".*" },
	func(s string) string { return `\A` + s },
	func(s string) string { return s + `\z` },
	func(s string) string { return s + "[a-c]" },
	func(s string) string { return s + "d" },
	func(s string) string { return s + `\b` },
	func(s string) string { return "(?m)^" + s + "$" },
	func(s string) string { return "(?U)" + s + "+" },
	func(s string) string { return s + "{,2}" },
	func(s string) string { return "(?P<n>" + s + ")" },
	// invalid ones
	func(s string) string { return s + "[a-" },
	func(s string) string { return s + "(" },
	func(s string) string { return s + "{2,1}" },
	func(s string) string { return s + `\` },
	func(s string) string { return "(?P<n>" + s },
	func(s string) string { return s + ")" },
	func(s string) string { return "*" + s },
	func(s string) string { return s + "**" },
	func(s string) string { return "(?z)" + s },
	func(s string) string { return s + `\p{Foo}` },
	func(s string) string { return s + "{1001}" },
	func(s string) string { return s + `\8` },
	func(s string) string { return "(?<=" + s + ")" },
	func(s string) string { return s + "[z-a]" },
	func(s string) string { return s + "(?i" },
	func(s string) string { return s + "[[:foo:]]" },
	func(s string) string { return s + "|*" },
	func(s string) string { return "(?P<n>" + s + ")(?P<n>" + s + ")" },
}

// classics are taken as they are.
var classics = []string{
	"a", "^a", "a$", "(?i)a", "a+", "a|b", "[a-", "(", "a{2,1}", `\p{L}`, `\d+`, "x*", "", "^", "$", ".", "^$", "$^", `\`, "[", ")", "(?i)", "ab", "abc", "^ab", "^abc", "abc$",
	`^[a-z]+$`, `^\d{3}-\d{2}$`, "a**", `\pN`, `[[:alpha:]]`, "(?i)abc", "(?i)ABC", "aa", "a*", "a?",
}

var subjectPool = []string{
	"", "a", "A", "ab", "AB", "abc", "ABC", "abcd", "abcabc", "xabc", "abcx", "aa", "aaa", "b", "c", "d", "ad", "abd", "1", "12", "123-45", "x", "xx", "é", "éé", "a\n", "a\nb", "ab\n",
	"a c", "a b", "aXc", "axc", ".", "{", "{{", "(", "n", "a1", "1a", " ", "bb", "ac", "abab",
}

func genPatterns(t *rapid.T) []string {
	n := 3 + uni(t, 28, "npat")
	nst := 1 + uni(t, 3, "nstems")
	st := make([]string, nst)
	for i := range st {
		st[i] = stems[uni(t, len(stems), "stem")]
	}
	seen := map[string]bool{}
	var out []string
	add := func(p string) {
		if !seen[p] {
			seen[p] = true
			out = append(out, p)
		}
	}
	for tries := 0; len(out) < n && tries < 4*n; tries++ {
		if coin(t, 1, 5, "classic") {
			add(classics[uni(t, len(classics), "cl")])
			continue
		}
		add(wrappers[uni(t, len(wrappers), "wrap")](st[uni(t, nst, "whichstem")]))
	}
	for i := 0; len(out) < 3; i++ { // only when the draws above kept colliding
		add(classics[i])
	}
	return out
}

func genSubjects(t *rapid.T) []string {
	n := 4 + uni(t, 7, "nsubj")
	seen := map[string]bool{}
	var out []string
	for tries := 0; len(out) < n && tries < 4*n; tries++ {
		s := subjectPool[uni(t, len(subjectPool), "subj")]
		if !seen[s] {
			seen[s] = true
			out = append(out, s)
		}
	}
	return out
}

// genStep draws a use; first >= 0 forces the (first) pattern.
func genStep(t *rapid.T, npat, nsubj, first int, yields bool) Step {
	var st Step
	switch k := uni(t, 20, "entry"); {
	case k < 8:
		st.E = eHelper
	case k < 13:
		st.E = eSchema
	case k < 16:
		st.E = ePPOpen
	case k < 19:
		st.E = ePPClosed
	default:
		st.E = eClosedBare
	}
	p := first
	if p < 0 {
		p = uni(t, npat, "pat")
	}
	st.P = []int{p}
	if st.E == ePPOpen || st.E == ePPClosed {
		extra := uni(t, 4, "ppextra") // 0,0,1,2 further patterns
		for i := 1; i < extra; i++ {
			q := uni(t, npat, "pat")
			dup := false
			for _, o := range st.P {
				dup = dup || o == q
			}
			if !dup {
				st.P = append(st.P, q)
			}
		}
	}
	st.S = uni(t, nsubj, "s")
	if yields {
		st.Y = coin(t, 1, 4, "yield")
	}
	return st
}

func perm(t *rapid.T, n int) []int {
	p := make([]int, n)
	for i := range p {
		p[i] = i
	}
	for i := n - 1; i > 0; i-- {
		j := uni(t, i+1, "perm")
		p[i], p[j] = p[j], p[i]
	}
	return p
}

var gBuckets = [][2]int{{1, 1}, {2, 2}, {3, 4}, {5, 8}, {9, 16}, {17, 32}, {33, 64}}

func gen(t *rapid.T) Case {
	c := Case{Patterns: genPatterns(t), Subjects: genSubjects(t)}
	np, ns := len(c.Patterns), len(c.Subjects)
	c.Conc = coin(t, 3, 5, "conc")
	if !c.Conc {
		n := 3 + uni(t, 58, "steps")
		for i := 0; i < n; i++ {
			c.Seq = append(c.Seq, genStep(t, np, ns, -1, false))
		}
		return c
	}
	c.Procs = []int{1, 2, 4, 16}[uni(t, 4, "procs")]
	b := gBuckets[uni(t, len(gBuckets), "gbucket")]
	g := b[0] + uni(t, b[1]-b[0]+1, "g")
	switch k := uni(t, 10, "barrier"); {
	case k == 0:
		c.Barrier = 0
	case k < 6:
		c.Barrier = 1
	default:
		c.Barrier = 2
	}
	c.Waves = c.Barrier != 0 && coin(t, 1, 2, "waves")
	// fresh: the k-th use of goroutine i is a pattern nobody has used yet, as long as the supply lasts
	fresh := coin(t, 4, 5, "fresh")
	order := perm(t, np)
	maxLen := 6
	if g > 32 {
		maxLen = 4
	}
	lens := make([]int, g)
	sameLen := coin(t, 1, 2, "samelen")
	l0 := 1 + uni(t, maxLen, "len")
	for i := range lens {
		lens[i] = l0
		if !sameLen {
			lens[i] = 1 + uni(t, maxLen, "len")
		}
	}
	c.Go = make([][]Step, g)
	for i := 0; i < g; i++ {
		for k := 0; k < lens[i]; k++ {
			first := -1
			if idx := k*g + i; fresh && idx < np {
				first = order[idx]
			}
			c.Go[i] = append(c.Go[i], genStep(t, np, ns, first, true))
		}
	}
	return c
}

// ---------------------------------------------------------------------------
// oracle (standard regexp package only) and execution

type patInfo struct {
	re  *regexp.Regexp // nil: invalid
	err error
}

// use is a step ready to run: everything it needs was built beforehand.
type use struct {
	st       Step
	pats     []string
	subj     string
	schema   *spec.Schema
	instance interface{}
	// expectation
	wantInvalid bool // the call must report the pattern as invalid
	wantOK      bool // otherwise: the call must return nil / must return an error
	mustCache   []string
	desc        string
}

func jstr(s string) string {
	b, _ := json.Marshal(s)
	return string(b)
}

func prepare(c *Case, info []patInfo, st Step) (*use, string) {
	if st.E < 0 || st.E > eClosedBare || len(st.P) == 0 || st.S < 0 || st.S >= len(c.Subjects) {
		return nil, fmt.Sprintf("malformed step %+v", st)
	}
	u := &use{st: st, subj: c.Subjects[st.S]}
	seen := map[int]bool{}
	anyMatch := false
	for _, pi := range st.P {
		if pi < 0 || pi >= len(c.Patterns) {
			return nil, fmt.Sprintf("malformed step %+v", st)
		}
		if seen[pi] {
			continue
		}
		seen[pi] = true
		u.pats = append(u.pats, c.Patterns[pi])
		if info[pi].re != nil {
			u.mustCache = append(u.mustCache, c.Patterns[pi])
			anyMatch = anyMatch || info[pi].re.MatchString(u.subj)
		}
	}
	if st.E <= eSchema {
		u.pats = u.pats[:1]
		first := info[st.P[0]]
		u.mustCache = nil
		if first.re != nil {
			u.mustCache = []string{u.pats[0]}
		}
		u.wantInvalid = first.re == nil
		u.wantOK = first.re != nil && first.re.MatchString(u.subj)
	}
	var text string
	if st.E == eClosedBare {
		u.pats, u.mustCache = nil, nil
		text = `{"additionalProperties":false}`
		u.instance = map[string]interface{}{u.subj: float64(1)}
		u.wantInvalid = false
		u.wantOK = u.subj == "$schema" || u.subj == "id" // the library deliberately lets these two through (known, C01/C02)
	}
	switch st.E {
	case eHelper:
	case eSchema:
		text = `{"pattern":` + jstr(u.pats[0]) + `}`
		u.instance = u.subj
		if u.pats[0] == "" { // absent keyword
			u.wantInvalid, u.wantOK, u.mustCache = false, true, nil
		}
	case ePPOpen, ePPClosed:
		var sb strings.Builder
		sb.WriteString(`{"patternProperties":{`)
		for i, p := range u.pats {
			if i > 0 {
				sb.WriteString(",")
			}
			sb.WriteString(jstr(p))
			if st.E == ePPOpen {
				sb.WriteString(`:{"type":"null"}`)
			} else {
				sb.WriteString(`:{}`)
			}
		}
		sb.WriteString("}")
		if st.E == ePPClosed {
			sb.WriteString(`,"additionalProperties":false`)
		}
		sb.WriteString("}")
		text = sb.String()
		u.instance = map[string]interface{}{u.subj: float64(1)}
		if st.E == ePPOpen {
			u.wantOK = !anyMatch
		} else {
			// the library deliberately lets "$schema" and "id" through (known, C01/C02)
			u.wantOK = anyMatch || u.subj == "$schema" || u.subj == "id"
		}
	}
	if text != "" {
		u.schema = new(spec.Schema)
		if err := json.Unmarshal([]byte(text), u.schema); err != nil {
			return nil, fmt.Sprintf("harness: schema text %s does not load: %v", text, err)
		}
		switch st.E {
		case eSchema:
			if u.schema.Pattern != u.pats[0] {
				return nil, fmt.Sprintf("harness: schema text %s loaded with pattern %q", text, u.schema.Pattern)
			}
		case eClosedBare:
		default:
			if len(u.schema.PatternProperties) != len(u.pats) {
				return nil, fmt.Sprintf("harness: schema text %s loaded with %d pattern properties", text, len(u.schema.PatternProperties))
			}
			for _, p := range u.pats {
				if _, ok := u.schema.PatternProperties[p]; !ok {
					return nil, fmt.Sprintf("harness: schema text %s loaded without the key %q", text, p)
				}
			}
		}
	}
	u.desc = fmt.Sprintf("%s patterns %q subject %q", entryNames[st.E], u.pats, u.subj)
	return u, ""
}

// run executes one use and compares with the precomputed expectation.
// It returns "" when the use behaved as expected.
func (u *use) run() (msg string) {
	defer func() {
		if r := recover(); r != nil {
			msg = fmt.Sprintf("%s: panic: %v", u.desc, r)
		}
	}()
	if u.st.Y {
		runtime.Gosched()
	}
	var got string
	isNil := true
	if u.st.E == eHelper {
		if e := validate.Pattern("p", "body", u.subj, u.pats[0]); e != nil {
			isNil, got = false, e.Error()
		}
	} else {
		if e := validate.AgainstSchema(u.schema, u.instance, strfmt.Default); e != nil {
			isNil, got = false, e.Error()
		}
	}
	switch {
	case u.wantInvalid:
		if isNil {
			return fmt.Sprintf("%s: the pattern is invalid for regexp.Compile but the call reported nothing", u.desc)
		}
		if !strings.Contains(got, "but pattern is invalid") || !strings.Contains(got, u.pats[0]) {
			return fmt.Sprintf("%s: the pattern is invalid for regexp.Compile but the message does not say so: %q", u.desc, got)
		}
	case u.wantOK && !isNil:
		if strings.Contains(got, "but pattern is invalid") {
			return fmt.Sprintf("%s: regexp.Compile accepts the pattern, the call reports it as invalid: %q", u.desc, got)
		}
		return fmt.Sprintf("%s: expected acceptance by regexp.MatchString on the very pattern(s), got error %q", u.desc, got)
	case !u.wantOK && isNil:
		return fmt.Sprintf("%s: expected rejection by regexp.MatchString on the very pattern(s), the call accepted", u.desc)
	case !u.wantOK && u.st.E <= eSchema:
		if strings.Contains(got, "but pattern is invalid") {
			return fmt.Sprintf("%s: regexp.Compile accepts the pattern, the call reports it as invalid: %q", u.desc, got)
		}
		if !strings.Contains(got, "should match '"+u.pats[0]+"'") {
			return fmt.Sprintf("%s: rejection message does not name the pattern asked for: %q", u.desc, got)
		}
	}
	return ""
}

// cacheCheck compares the hook snapshot with the set of valid patterns that must have been compiled.
func cacheCheck(want map[string]bool, valid map[string]bool, when string) string {
	if !hook.Enabled {
		return ""
	}
	snap := hook.RegexpCache()
	keys := make([]string, 0, len(snap))
	for k := range snap {
		keys = append(keys, k)
	}
	sort.Strings(keys)
	for _, k := range keys {
		if snap[k] != k {
			return fmt.Sprintf("%s: cache entry with key %q holds the expression %q", when, k, snap[k])
		}
		if !valid[k] {
			if _, err := regexp.Compile(k); err != nil {
				return fmt.Sprintf("%s: the invalid pattern %q is cached", when, k)
			}
		}
		if !want[k] {
			return fmt.Sprintf("%s: cache holds %q, which no use so far has compiled", when, k)
		}
	}
	ws := make([]string, 0, len(want))
	for k := range want {
		ws = append(ws, k)
	}
	sort.Strings(ws)
	for _, k := range ws {
		if _, ok := snap[k]; !ok {
			return fmt.Sprintf("%s: the valid pattern %q was used but is not in the cache (cache keys %q)", when, k, keys)
		}
	}
	return ""
}

func lcp(a, b string) int {
	n := 0
	for n < len(a) && n < len(b) && a[n] == b[n] {
		n++
	}
	return n
}

func samePrefix(a, b string) bool {
	m := min(3, len(a), len(b))
	return m >= 1 && lcp(a, b) >= m
}

func bucket(n int, edges ...int) string {
	lo := 0
	for _, e := range edges {
		if n <= e {
			if lo == e || lo+1 == e {
				return fmt.Sprint(e)
			}
			return fmt.Sprintf("%d-%d", lo+1, e)
		}
		lo = e
	}
	return fmt.Sprintf("%d+", lo+1)
}

func seqText(us []*use) string {
	var sb strings.Builder
	for i, u := range us {
		if i > 0 {
			sb.WriteString(" ; ")
		}
		fmt.Fprintf(&sb, "%s%q/%q", entryNames[u.st.E], u.pats, u.subj)
	}
	return sb.String()
}

func check(c Case) (out ev.Outcome) {
	defer func() {
		if r := recover(); r != nil {
			out = ev.Failf("panic: %v", r)
		}
	}()
	if len(c.Patterns) == 0 || len(c.Subjects) == 0 {
		return ev.Outcome{Excluded: []string{"empty case"}}
	}
	// --- expectations, with the standard library only
	info := make([]patInfo, len(c.Patterns))
	valid := map[string]bool{}
	nInvalid := 0
	for i, p := range c.Patterns {
		r, err := regexp.Compile(p)
		info[i] = patInfo{re: r, err: err}
		if err == nil {
			valid[p] = true
			if r.String() != p {
				return ev.Failf("harness: regexp.Compile(%q).String() = %q", p, r.String())
			}
		} else {
			nInvalid++
		}
	}
	var seq []*use
	var procs [][]*use
	if c.Conc {
		if len(c.Go) == 0 || len(c.Go) > 64 {
			return ev.Outcome{Excluded: []string{"goroutine count outside 1..64"}}
		}
		procs = make([][]*use, len(c.Go))
		for g, steps := range c.Go {
			for _, st := range steps {
				u, bad := prepare(&c, info, st)
				if bad != "" {
					return ev.Failf("%s", bad)
				}
				procs[g] = append(procs[g], u)
			}
		}
	} else {
		for _, st := range c.Seq {
			u, bad := prepare(&c, info, st)
			if bad != "" {
				return ev.Failf("%s", bad)
			}
			seq = append(seq, u)
		}
	}

	// --- classes and the non-triviality rule (from the workload alone)
	cls := map[string]bool{}
	counters := map[string]int64{}
	invalidAfterValid := false
	tally := func(us []*use) {
		var validSeen []string
		for _, u := range us {
			cls["entry:"+entryNames[u.st.E]] = true
			counters["uses"]++
			switch {
			case u.st.E <= eSchema && u.wantInvalid:
				counters["uses_invalid_reported"]++
			case u.wantOK:
				counters["uses_expect_nil"]++
			default:
				counters["uses_expect_error"]++
			}
			for _, p := range u.pats {
				if valid[p] {
					continue
				}
				for _, v := range validSeen {
					if samePrefix(v, p) {
						invalidAfterValid = true
					}
				}
			}
			for _, p := range u.pats {
				if valid[p] {
					validSeen = append(validSeen, p)
				}
			}
		}
	}
	concNew := 0 // largest number of different brand-new patterns compiled by different goroutines in one released wave
	if c.Conc {
		cls["mode:conc"] = true
		cls["g:"+bucket(len(procs), 1, 2, 4, 8, 16, 32, 64)] = true
		cls[fmt.Sprintf("procs:%d", c.Procs)] = true
		cls[fmt.Sprintf("barrier:%d", c.Barrier)] = true
		if c.Waves {
			cls["waves"] = true
		}
		total := 0
		for _, us := range procs {
			tally(us)
			total += len(us)
		}
		cls["steps:"+bucket(total, 4, 16, 64, 128, 256, 384)] = true
		if c.Barrier != 0 && len(procs) >= 2 {
			used := map[string]bool{}
			maxK := 1
			if c.Waves {
				for _, us := range procs {
					maxK = max(maxK, len(us))
				}
			}
			for k := 0; k < maxK; k++ {
				// one pattern per goroutine counts: different goroutines, different new patterns
				newHere := map[string]bool{}
				for _, us := range procs {
					if k >= len(us) {
						continue
					}
					for _, p := range us[k].mustCache {
						if !used[p] && !newHere[p] {
							newHere[p] = true
							break
						}
					}
				}
				concNew = max(concNew, len(newHere))
				for _, us := range procs {
					if k < len(us) {
						for _, p := range us[k].mustCache {
							used[p] = true
						}
					}
				}
			}
		}
		cls["conc-new:"+bucket(concNew, 0, 1, 4, 8, 16, 30)] = true
	} else {
		cls["mode:seq"] = true
		tally(seq)
		cls["steps:"+bucket(len(seq), 4, 16, 64)] = true
	}
	cls["patterns:"+bucket(len(c.Patterns), 4, 8, 16, 30)] = true
	cls["invalid-patterns:"+bucket(nInvalid, 0, 1, 3, 8, 30)] = true
	if invalidAfterValid {
		cls["invalid-after-valid-same-prefix"] = true
	}
	finish := func(o ev.Outcome) ev.Outcome {
		for k := range cls {
			o.Classes = append(o.Classes, k)
		}
		sort.Strings(o.Classes)
		o.Counters = counters
		o.Nontrivial = invalidAfterValid || concNew >= 2
		return o
	}

	// --- execution
	hook.ResetRegexpCache()
	want := map[string]bool{}
	if !c.Conc {
		for i, u := range seq {
			if msg := u.run(); msg != "" {
				return finish(ev.Failf("sequential step %d: %s (history so far: %s)", i, msg, seqText(seq[:i+1])))
			}
			for _, p := range u.mustCache {
				want[p] = true
			}
			if msg := cacheCheck(want, valid, fmt.Sprintf("after sequential step %d (%s)", i, u.desc)); msg != "" {
				return finish(ev.Failf("%s (history so far: %s)", msg, seqText(seq[:i+1])))
			}
		}
		return finish(ev.Outcome{})
	}

	if c.Procs >= 1 {
		if !raceEnabled {
			prev := runtime.GOMAXPROCS(c.Procs)
			defer runtime.GOMAXPROCS(prev)
		}
	}
	g := len(procs)
	fails := make([][]string, g)
	maxLen := 0
	for _, us := range procs {
		maxLen = max(maxLen, len(us))
	}
	// one synchronisation point per step number: goroutines that still have a k-th step meet there
	gates := make([]*gate, maxLen)
	for k := range gates {
		n := 0
		for _, us := range procs {
			if len(us) > k {
				n++
			}
		}
		gates[k] = newGate(n, c.Barrier)
	}
	var wg sync.WaitGroup
	wg.Add(g)
	for i := 0; i < g; i++ {
		go func(i int) {
			defer wg.Done()
			for k, u := range procs[i] {
				if k == 0 || c.Waves {
					gates[k].arrive()
				}
				if msg := u.run(); msg != "" {
					fails[i] = append(fails[i], fmt.Sprintf("step %d: %s", k, msg))
				}
			}
		}(i)
	}
	wg.Wait()
	for i := range fails {
		if len(fails[i]) > 0 {
			n := 0
			for _, f := range fails {
				n += len(f)
			}
			return finish(ev.Failf("goroutine %d of %d (GOMAXPROCS %d, barrier %d, waves %v) %s [%d deviating uses in all; this goroutine ran: %s]",
				i, g, c.Procs, c.Barrier, c.Waves, fails[i][0], n, seqText(procs[i])))
		}
	}
	for _, us := range procs {
		for _, u := range us {
			for _, p := range u.mustCache {
				want[p] = true
			}
		}
	}
	if msg := cacheCheck(want, valid, fmt.Sprintf("after %d goroutines joined (GOMAXPROCS %d, barrier %d, waves %v)", g, c.Procs, c.Barrier, c.Waves)); msg != "" {
		return finish(ev.Failf("%s", msg))
	}
	return finish(ev.Outcome{})
}

// A gate lets n goroutines continue together. It is a scheduling aid only,
// never an oracle: kind 0 does not wait at all, kind 1 sleeps on a channel
// closed by the last arrival, kind 2 spins on a counter, yielding.
type gate struct {
	n    int
	kind int
	mu   sync.Mutex
	cnt  int
	ch   chan struct{}
}

func newGate(n, kind int) *gate { return &gate{n: n, kind: kind, ch: make(chan struct{})} }

func (g *gate) arrive() {
	if g.kind == 0 {
		return
	}
	g.mu.Lock()
	g.cnt++
	last := g.cnt == g.n
	g.mu.Unlock()
	if last {
		close(g.ch)
		return
	}
	if g.kind == 1 {
		<-g.ch
		return
	}
	for {
		select {
		case <-g.ch:
			return
		default:
			runtime.Gosched()
		}
	}
}

func TestProp(t *testing.T)   { ev.Prop(t, true, gen, check) }
func TestReplay(t *testing.T) { ev.Replay(t, check) }
