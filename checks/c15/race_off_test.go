//go:build !race

package c15

const raceEnabled = false
