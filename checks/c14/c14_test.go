// Package c14 decides property C14: the thirteen exported value helpers
// (MinLength, MaxLength, Pattern, UniqueItems, Enum, EnumCase, MinItems,
// MaxItems, Required, RequiredString, RequiredNumber, ReadOnly, FormatOf)
// implement their textbook definitions for every input and are pure.
//
// One case is one helper invocation. Arguments are kept as descriptors (typed
// values as {"k":"int8","v":"s:-3"}, nested lists, maps, pointers, arrays,
// structs, typed and untyped nils) from which the Go values are built; the
// oracle works on the descriptors only, so it shares no code with the library:
// code points are counted by ranging over the string, numbers are compared as
// exact rationals (math/big), deep equality is structural, case folding walks
// the unicode.SimpleFold orbits, zero-ness is decided kind by kind.
//
// Equality is three-valued. Two values are equal when they have the same
// structure, the same content and the same Go types; different when structure
// or content differ; undetermined when they differ only in a way the statement
// does not settle (nested numbers of different Go types, nil versus empty
// container, untyped versus typed nil, string versus named string, NaN, non-nil
// funcs). At the top level of Enum/EnumCase numerically equal numbers of
// different Go types are equal (the statement's cross-type clause). Cases whose
// expected verdict hinges on an undetermined comparison are executed (purity,
// no panic) but their verdict is not judged; they are counted as excluded.
package c14

import (
	"context"
	"encoding/hex"
	"encoding/json"
	"fmt"
	"math"
	"math/big"
	"reflect"
	"regexp"
	"strconv"
	"strings"
	"testing"
	"unicode"
	"unicode/utf8"

	oaerrors "github.com/go-openapi/errors"
	"github.com/go-openapi/strfmt"
	"github.com/go-openapi/validate"
	"pgregory.net/rapid"

	"verif/internal/ev"
)

func TestMain(m *testing.M) {
	ev.Describe("one helper invocation per case, helper drawn with weights so that each of the 13 helpers gets more than 5% of the cases; "+
		"strings are sequences of 0..8 units (ASCII, 2/3/4-byte runes, combining marks, invalid bytes, truncated and surrogate encodings); "+
		"typed values over all ten integer kinds, both float kinds, strings, a named string type with a String method, bools, pointers, typed slices, []interface{}, arrays, map[string]interface{}, two struct types, funcs, typed and untyped nils; "+
		"non-trivial = MinLength/MaxLength: byte length differs from code-point count and the limit lies within [code points-1, bytes+1]; "+
		"Pattern: invalid pattern, or a match that exists only as a proper substring (an anchored match would fail); "+
		"Enum/EnumCase: candidate and some member are numbers of different Go kinds, or the candidate is nil, or a comparison is nil-versus-empty/undetermined, or an integer candidate meets a string member (or string meets byte/rune slice), or a case-folding candidate pair (equal only after folding, or invalid UTF-8 under folding), or the only equal member is the last one; "+
		"UniqueItems: at least two items and a duplicate, a nested container or an undetermined pair; MinItems/MaxItems: size within 1 of the limit; "+
		"Required/ReadOnly/RequiredString/RequiredNumber: the value is zero, nil-like, an empty non-nil container, a pointer to a zero value, a negative zero or NaN; "+
		"FormatOf: unknown format name, nil registry, or a name that the registry normalises; distinct by content hash of the case",
		"the helpers' path and in arguments only label the error; they are drawn from a small set and only the nil-ness of the result is judged, plus equality of message and code between two identical calls",
		"comparisons that differ only in Go type below the top level, nil-versus-empty containers, untyped-versus-typed nil, string-versus-named-string, NaN and non-nil funcs are undetermined by the statement: executed, not judged, counted under excluded",
		"a non-slice enum argument and a Go array passed to UniqueItems are outside the domain (counted under excluded); a non-slice non-array UniqueItems argument has no items and must be accepted",
		"negative zero is excluded from the zero-value helpers (Required, ReadOnly, RequiredNumber): Go's == calls it zero, its bit pattern is not the zero value",
		"FormatOf 'follows the registry': for nil and strfmt.Default the expected verdict is strfmt.Default.ContainsName/Validates called directly; the custom registry is a test double with exact-name lookup and four deterministic validators",
		"a nil context.Context is not an operation context and is not generated")
	ev.Main(m, "C14")
}

// ---------------------------------------------------------------------------
// case encoding

// Str is a string that survives JSON even when it is not valid UTF-8:
// "s:<text>" for valid UTF-8, "x:<hex>" otherwise.
type Str string

func (s Str) MarshalJSON() ([]byte, error) {
	if utf8.ValidString(string(s)) {
		return json.Marshal("s:" + string(s))
	}
	return json.Marshal("x:" + hex.EncodeToString([]byte(s)))
}

func (s *Str) UnmarshalJSON(b []byte) error {
	var raw string
	if err := json.Unmarshal(b, &raw); err != nil {
		return err
	}
	switch {
	case strings.HasPrefix(raw, "s:"):
		*s = Str(raw[2:])
	case strings.HasPrefix(raw, "x:"):
		d, err := hex.DecodeString(raw[2:])
		if err != nil {
			return err
		}
		*s = Str(d)
	case raw == "":
		*s = ""
	default:
		return fmt.Errorf("Str: missing s:/x: prefix in %q", raw)
	}
	return nil
}

// TV describes a typed Go value.
//
//	k: nil | bool | string | stringer | int..int64 | uint..uint64 | float32 | float64 |
//	   ptr | slice | array | map | struct | func
//	v: text of a scalar (decimal integers, strconv floats incl. NaN/+Inf/-Inf/-0, true/false, string content)
//	e: element type of ptr/slice/array (a scalar kind, or "any" for interface{}); struct type name (pair | boxed)
//	nil: typed nil pointer / slice / map / func
//	items: slice and array elements, the pointee, struct fields in order, map values (parallel to keys)
type TV struct {
	K     string `json:"k"`
	V     Str    `json:"v,omitempty"`
	E     string `json:"e,omitempty"`
	Nil   bool   `json:"nil,omitempty"`
	Items []TV   `json:"items,omitempty"`
	Keys  []Str  `json:"keys,omitempty"`
}

// String renders the described value in a Go-like, address-free notation.
func (tv TV) String() string {
	list := func() string {
		parts := make([]string, 0, len(tv.Items))
		for i, it := range tv.Items {
			if tv.K == "map" && i < len(tv.Keys) {
				parts = append(parts, strconv.Quote(string(tv.Keys[i]))+": "+it.String())
			} else {
				parts = append(parts, it.String())
			}
		}
		return "{" + strings.Join(parts, ", ") + "}"
	}
	switch tv.K {
	case "nil":
		return "nil"
	case "string", "stringer":
		return tv.K + "(" + strconv.Quote(string(tv.V)) + ")"
	case "func":
		if tv.Nil {
			return "(func())(nil)"
		}
		return "func(){}"
	case "ptr":
		if tv.Nil || len(tv.Items) != 1 {
			return "(*" + tv.E + ")(nil)"
		}
		return "&" + tv.Items[0].String()
	case "slice":
		if tv.Nil {
			return "[]" + tv.E + "(nil)"
		}
		return "[]" + tv.E + list()
	case "array":
		return fmt.Sprintf("[%d]%s%s", len(tv.Items), tv.E, list())
	case "map":
		if tv.Nil {
			return "map[string]any(nil)"
		}
		return "map[string]any" + list()
	case "struct":
		return tv.E + list()
	}
	return tv.K + "(" + string(tv.V) + ")"
}

// Case is one helper invocation.
type Case struct {
	Helper string `json:"helper"`
	Path   string `json:"path"`
	In     string `json:"in"`
	S      Str    `json:"s,omitempty"`    // string data (MinLength, MaxLength, Pattern, RequiredString, FormatOf)
	P      Str    `json:"p,omitempty"`    // pattern (Pattern) or format name (FormatOf)
	Size   int64  `json:"size,omitempty"` // size (MinItems, MaxItems)
	Limit  int64  `json:"limit,omitempty"`
	F      string `json:"f,omitempty"` // float64 data of RequiredNumber, strconv text
	Data   *TV    `json:"data,omitempty"`
	Enum   *TV    `json:"enum,omitempty"`
	CS     bool   `json:"case_sensitive,omitempty"`
	Ctx    string `json:"ctx,omitempty"`
	Reg    string `json:"registry,omitempty"`
}

// ---------------------------------------------------------------------------
// Go values from descriptors

type label string

// String makes fmt print something unrelated to the content.
func (label) String() string { return "label" }

type pair struct {
	N int
	S string
}

type boxed struct {
	N int
	L []int
}

func aFunc() {}

var intKinds = []string{"int", "int8", "int16", "int32", "int64", "uint", "uint8", "uint16", "uint32", "uint64"}
var floatKinds = []string{"float32", "float64"}
var numKinds = append(append([]string{}, intKinds...), floatKinds...)

func isIntKind(k string) bool   { return strings.HasPrefix(k, "int") || strings.HasPrefix(k, "uint") }
func isFloatKind(k string) bool { return k == "float32" || k == "float64" }
func isNumKind(k string) bool   { return isIntKind(k) || isFloatKind(k) }
func isStrKind(k string) bool   { return k == "string" || k == "stringer" }
func isScalarKind(k string) bool {
	return k == "bool" || isNumKind(k) || isStrKind(k)
}

func intBits(k string) (bits int, unsigned bool) {
	unsigned = strings.HasPrefix(k, "uint")
	s := strings.TrimPrefix(strings.TrimPrefix(k, "u"), "int")
	if s == "" {
		return 64, unsigned
	}
	bits, _ = strconv.Atoi(s)
	return bits, unsigned
}

func buildScalar(k, v string) (interface{}, error) {
	switch k {
	case "bool":
		return strconv.ParseBool(v)
	case "string":
		return v, nil
	case "stringer":
		return label(v), nil
	case "float32":
		f, err := strconv.ParseFloat(v, 32)
		if err != nil && !math.IsInf(f, 0) {
			return nil, err
		}
		return float32(f), nil
	case "float64":
		f, err := strconv.ParseFloat(v, 64)
		if err != nil && !math.IsInf(f, 0) {
			return nil, err
		}
		return f, nil
	}
	if !isIntKind(k) {
		return nil, fmt.Errorf("unknown scalar kind %q", k)
	}
	bits, unsigned := intBits(k)
	if unsigned {
		n, err := strconv.ParseUint(v, 10, bits)
		if err != nil {
			return nil, err
		}
		switch k {
		case "uint":
			return uint(n), nil
		case "uint8":
			return uint8(n), nil
		case "uint16":
			return uint16(n), nil
		case "uint32":
			return uint32(n), nil
		default:
			return n, nil
		}
	}
	n, err := strconv.ParseInt(v, 10, bits)
	if err != nil {
		return nil, err
	}
	switch k {
	case "int":
		return int(n), nil
	case "int8":
		return int8(n), nil
	case "int16":
		return int16(n), nil
	case "int32":
		return int32(n), nil
	default:
		return n, nil
	}
}

var anyType = reflect.TypeOf((*interface{})(nil)).Elem()

func elemType(e string) (reflect.Type, error) {
	if e == "any" {
		return anyType, nil
	}
	zero := "0"
	switch e {
	case "bool":
		zero = "false"
	case "string", "stringer":
		zero = ""
	}
	v, err := buildScalar(e, zero)
	if err != nil {
		return nil, fmt.Errorf("bad element type %q", e)
	}
	return reflect.TypeOf(v), nil
}

func setElem(dst reflect.Value, e string, item TV) error {
	if e != "any" && item.K != e {
		return fmt.Errorf("element of kind %q in a container of %q", item.K, e)
	}
	v, err := build(item)
	if err != nil {
		return err
	}
	if v == nil {
		return nil // untyped nil stays the zero interface
	}
	dst.Set(reflect.ValueOf(v))
	return nil
}

// build makes the Go value of a descriptor (nil interface for k == "nil").
func build(tv TV) (interface{}, error) {
	switch tv.K {
	case "nil":
		return nil, nil
	case "func":
		if tv.Nil {
			return (func())(nil), nil
		}
		return aFunc, nil
	case "ptr":
		et, err := elemType(tv.E)
		if err != nil || tv.E == "any" {
			return nil, fmt.Errorf("bad pointer element %q", tv.E)
		}
		if tv.Nil {
			return reflect.Zero(reflect.PointerTo(et)).Interface(), nil
		}
		if len(tv.Items) != 1 {
			return nil, fmt.Errorf("pointer needs one item")
		}
		p := reflect.New(et)
		if err := setElem(p.Elem(), tv.E, tv.Items[0]); err != nil {
			return nil, err
		}
		return p.Interface(), nil
	case "slice":
		et, err := elemType(tv.E)
		if err != nil {
			return nil, err
		}
		if tv.Nil {
			if len(tv.Items) != 0 {
				return nil, fmt.Errorf("nil slice with items")
			}
			return reflect.Zero(reflect.SliceOf(et)).Interface(), nil
		}
		s := reflect.MakeSlice(reflect.SliceOf(et), len(tv.Items), len(tv.Items))
		for i, it := range tv.Items {
			if err := setElem(s.Index(i), tv.E, it); err != nil {
				return nil, err
			}
		}
		return s.Interface(), nil
	case "array":
		et, err := elemType(tv.E)
		if err != nil {
			return nil, err
		}
		a := reflect.New(reflect.ArrayOf(len(tv.Items), et)).Elem()
		for i, it := range tv.Items {
			if err := setElem(a.Index(i), tv.E, it); err != nil {
				return nil, err
			}
		}
		return a.Interface(), nil
	case "map":
		if tv.Nil {
			if len(tv.Items) != 0 {
				return nil, fmt.Errorf("nil map with items")
			}
			return (map[string]interface{})(nil), nil
		}
		if len(tv.Keys) != len(tv.Items) {
			return nil, fmt.Errorf("map keys and values differ in number")
		}
		m := make(map[string]interface{}, len(tv.Keys))
		for i, k := range tv.Keys {
			if _, dup := m[string(k)]; dup {
				return nil, fmt.Errorf("duplicate map key")
			}
			v, err := build(tv.Items[i])
			if err != nil {
				return nil, err
			}
			m[string(k)] = v
		}
		return m, nil
	case "struct":
		if len(tv.Items) != 2 || tv.Items[0].K != "int" {
			return nil, fmt.Errorf("bad struct fields")
		}
		n, err := build(tv.Items[0])
		if err != nil {
			return nil, err
		}
		switch tv.E {
		case "pair":
			if tv.Items[1].K != "string" {
				return nil, fmt.Errorf("bad pair")
			}
			return pair{N: n.(int), S: string(tv.Items[1].V)}, nil
		case "boxed":
			if tv.Items[1].K != "slice" || tv.Items[1].E != "int" {
				return nil, fmt.Errorf("bad boxed")
			}
			l, err := build(tv.Items[1])
			if err != nil {
				return nil, err
			}
			return boxed{N: n.(int), L: l.([]int)}, nil
		}
		return nil, fmt.Errorf("unknown struct %q", tv.E)
	}
	if isScalarKind(tv.K) {
		return buildScalar(tv.K, string(tv.V))
	}
	return nil, fmt.Errorf("unknown kind %q", tv.K)
}

// same tells whether two Go values are identical in type, nil-ness and content
// (floats by bit pattern, funcs by nil-ness); used for "arguments untouched".
func same(a, b reflect.Value) bool {
	if a.IsValid() != b.IsValid() {
		return false
	}
	if !a.IsValid() {
		return true
	}
	if a.Type() != b.Type() {
		return false
	}
	switch a.Kind() { //nolint:exhaustive
	case reflect.Float32, reflect.Float64:
		return math.Float64bits(a.Float()) == math.Float64bits(b.Float())
	case reflect.Func:
		return a.IsNil() == b.IsNil()
	case reflect.Ptr, reflect.Interface:
		if a.IsNil() || b.IsNil() {
			return a.IsNil() == b.IsNil()
		}
		return same(a.Elem(), b.Elem())
	case reflect.Slice:
		if a.IsNil() != b.IsNil() || a.Len() != b.Len() {
			return false
		}
		for i := 0; i < a.Len(); i++ {
			if !same(a.Index(i), b.Index(i)) {
				return false
			}
		}
		return true
	case reflect.Array:
		for i := 0; i < a.Len(); i++ {
			if !same(a.Index(i), b.Index(i)) {
				return false
			}
		}
		return true
	case reflect.Map:
		if a.IsNil() != b.IsNil() || a.Len() != b.Len() {
			return false
		}
		ok := true
		for _, k := range a.MapKeys() {
			bv := b.MapIndex(k)
			if !bv.IsValid() || !same(a.MapIndex(k), bv) {
				ok = false
			}
		}
		return ok
	case reflect.Struct:
		for i := 0; i < a.NumField(); i++ {
			if !same(a.Field(i), b.Field(i)) {
				return false
			}
		}
		return true
	case reflect.Bool:
		return a.Bool() == b.Bool()
	case reflect.String:
		return a.String() == b.String()
	case reflect.Int, reflect.Int8, reflect.Int16, reflect.Int32, reflect.Int64:
		return a.Int() == b.Int()
	case reflect.Uint, reflect.Uint8, reflect.Uint16, reflect.Uint32, reflect.Uint64:
		return a.Uint() == b.Uint()
	}
	return false
}

func sameIface(a, b interface{}) bool { return same(reflect.ValueOf(a), reflect.ValueOf(b)) }

// ---------------------------------------------------------------------------
// oracle on descriptors

type tri int

const (
	no tri = iota
	yes
	unk
)

type num struct {
	nan bool
	inf int
	neg bool // sign bit of a float (tells -0 from 0)
	r   *big.Rat
}

func numOf(tv TV) (num, bool) {
	switch {
	case isIntKind(tv.K):
		r, ok := new(big.Rat).SetString(string(tv.V))
		if !ok || !r.IsInt() {
			return num{}, false
		}
		return num{r: r}, true
	case isFloatKind(tv.K):
		bits := 64
		if tv.K == "float32" {
			bits = 32
		}
		f, err := strconv.ParseFloat(string(tv.V), bits)
		if err != nil && !math.IsInf(f, 0) {
			return num{}, false
		}
		switch {
		case math.IsNaN(f):
			return num{nan: true}, true
		case math.IsInf(f, 1):
			return num{inf: 1}, true
		case math.IsInf(f, -1):
			return num{inf: -1, neg: true}, true
		}
		return num{r: new(big.Rat).SetFloat64(f), neg: math.Signbit(f)}, true
	}
	return num{}, false
}

// numEq: yes / no by exact mathematical value, unk when a NaN is involved.
func numEq(a, b num) tri {
	switch {
	case a.nan || b.nan:
		return unk
	case a.inf != 0 || b.inf != 0:
		if a.inf == b.inf {
			return yes
		}
		return no
	case a.r.Cmp(b.r) == 0:
		return yes
	}
	return no
}

func sameOrbit(x, y rune) bool {
	for r := unicode.SimpleFold(x); r != x; r = unicode.SimpleFold(r) {
		if r == y {
			return true
		}
	}
	return false
}

// foldEq: equal under Unicode simple case folding, code point by code point;
// a byte that is not part of a valid encoding only equals the same byte.
func foldEq(a, b string) bool {
	for len(a) > 0 && len(b) > 0 {
		ra, na := utf8.DecodeRuneInString(a)
		rb, nb := utf8.DecodeRuneInString(b)
		badA := ra == utf8.RuneError && na == 1
		badB := rb == utf8.RuneError && nb == 1
		switch {
		case badA || badB:
			if !(badA && badB && a[0] == b[0]) {
				return false
			}
		case ra != rb && !sameOrbit(ra, rb):
			return false
		}
		a, b = a[na:], b[nb:]
	}
	return len(a) == 0 && len(b) == 0
}

func nilLike(tv TV) bool { return tv.K == "nil" || tv.Nil }

// sig is the Go type of the described value.
func sig(tv TV) string {
	switch tv.K {
	case "ptr":
		return "*" + tv.E
	case "slice":
		return "[]" + tv.E
	case "array":
		return fmt.Sprintf("[%d]%s", len(tv.Items), tv.E)
	case "map":
		return "map[string]any"
	case "struct":
		return tv.E
	}
	return tv.K
}

func cat(tv TV) string {
	switch {
	case isNumKind(tv.K):
		return "num"
	case isStrKind(tv.K):
		return "str"
	case tv.K == "slice" || tv.K == "array":
		return "seq"
	}
	return tv.K
}

func combine(rs []tri, sameType bool) tri {
	out := yes
	for _, r := range rs {
		if r == no {
			return no
		}
		if r == unk {
			out = unk
		}
	}
	if out == yes && !sameType {
		return unk
	}
	return out
}

// cmp is deep value equality of two descriptors below the top level (see the
// package comment). fold: strings that differ only by case are undetermined.
func cmp(a, b TV, fold bool) tri {
	an, bn := nilLike(a), nilLike(b)
	if an && bn {
		if sig(a) == sig(b) {
			return yes
		}
		return unk
	}
	if an || bn {
		n, x := a, b
		if bn {
			n, x = b, a
		}
		if (n.K == "slice" && cat(x) == "seq" || n.K == "map" && x.K == "map") && len(x.Items) == 0 {
			return unk // nil versus empty
		}
		return no
	}
	if cat(a) != cat(b) {
		return no
	}
	switch cat(a) {
	case "num":
		na, oka := numOf(a)
		nb, okb := numOf(b)
		if !oka || !okb {
			return unk
		}
		r := numEq(na, nb)
		if r == yes && a.K != b.K {
			return unk
		}
		return r
	case "str":
		if a.V == b.V {
			if a.K == b.K {
				return yes
			}
			return unk
		}
		if fold && foldEq(string(a.V), string(b.V)) {
			return unk
		}
		return no
	case "bool":
		if a.V == b.V {
			return yes
		}
		return no
	case "func":
		return unk
	case "ptr":
		if len(a.Items) != 1 || len(b.Items) != 1 {
			return unk
		}
		return combine([]tri{cmp(a.Items[0], b.Items[0], fold)}, a.E == b.E)
	case "seq", "struct":
		if len(a.Items) != len(b.Items) {
			return no
		}
		rs := make([]tri, 0, len(a.Items))
		for i := range a.Items {
			rs = append(rs, cmp(a.Items[i], b.Items[i], fold))
		}
		return combine(rs, sig(a) == sig(b))
	case "map":
		if len(a.Items) != len(b.Items) || len(a.Keys) != len(a.Items) || len(b.Keys) != len(b.Items) {
			return no
		}
		rs := make([]tri, 0, len(a.Items))
		for i, k := range a.Keys {
			j := -1
			for jj, kb := range b.Keys {
				if kb == k {
					j = jj
				}
			}
			if j < 0 {
				return no
			}
			rs = append(rs, cmp(a.Items[i], b.Items[j], fold))
		}
		return combine(rs, true)
	}
	return unk
}

// cmpMember is the top-level comparison of an enum candidate with a member.
func cmpMember(data, el TV, fold bool) tri {
	if isNumKind(data.K) && isNumKind(el.K) {
		a, oka := numOf(data)
		b, okb := numOf(el)
		if !oka || !okb {
			return unk
		}
		return numEq(a, b) // numerically equal numbers of different Go types are equal
	}
	if fold && isStrKind(data.K) && isStrKind(el.K) {
		if !foldEq(string(data.V), string(el.V)) {
			return no
		}
		if data.K == el.K {
			return yes
		}
		return unk
	}
	return cmp(data, el, fold)
}

// zeroOf: is the described value the zero value of its Go type? det is false
// when the statement does not settle it (negative zero).
func zeroOf(tv TV) (zero, det bool) {
	switch {
	case tv.K == "nil":
		return true, true
	case tv.K == "bool":
		return tv.V == "false", true
	case isStrKind(tv.K):
		return tv.V == "", true
	case isNumKind(tv.K):
		n, ok := numOf(tv)
		if !ok {
			return false, false
		}
		if n.nan || n.inf != 0 {
			return false, true
		}
		if n.r.Sign() == 0 {
			return true, !n.neg
		}
		return false, true
	case tv.K == "ptr" || tv.K == "slice" || tv.K == "map" || tv.K == "func":
		return tv.Nil, true
	case tv.K == "array" || tv.K == "struct":
		zero, det = true, true
		for _, it := range tv.Items {
			z, d := false, true
			if tv.K == "array" && tv.E == "any" {
				z = it.K == "nil" // the zero interface is the untyped nil only
			} else {
				z, d = zeroOf(it)
			}
			if !z && d {
				return false, true
			}
			if !d {
				det = false
			}
		}
		return zero, det
	}
	return false, false
}

func runeCount(s string) int64 {
	var n int64
	for range s {
		n++
	}
	return n
}

// ---------------------------------------------------------------------------
// contexts and registries

type lookalikeKey string

type otherKey struct{}

var ctxNames = []string{"background", "todo", "request", "response", "request-then-response", "response-then-request",
	"foreign-string-key", "foreign-lookalike-type", "foreign-over-request", "foreign-over-response", "request-cancelled", "request-plus-value"}

// isRequest is the oracle: the innermost-to-outermost history of the context.
var isRequest = map[string]bool{
	"request": true, "response-then-request": true, "foreign-over-request": true, "request-cancelled": true, "request-plus-value": true,
}

func buildCtx(name string) (context.Context, error) {
	bg := context.Background()
	switch name {
	case "background":
		return bg, nil
	case "todo":
		return context.TODO(), nil
	case "request":
		return validate.WithOperationRequest(bg), nil
	case "response":
		return validate.WithOperationResponse(bg), nil
	case "request-then-response":
		return validate.WithOperationResponse(validate.WithOperationRequest(bg)), nil
	case "response-then-request":
		return validate.WithOperationRequest(validate.WithOperationResponse(bg)), nil
	case "foreign-string-key":
		return context.WithValue(bg, "operationTypeKey", "request"), nil //nolint:staticcheck
	case "foreign-lookalike-type":
		return context.WithValue(bg, lookalikeKey("operationTypeKey"), "request"), nil
	case "foreign-over-request":
		return context.WithValue(validate.WithOperationRequest(bg), lookalikeKey("operationTypeKey"), "response"), nil
	case "foreign-over-response":
		return context.WithValue(validate.WithOperationResponse(bg), lookalikeKey("operationTypeKey"), "request"), nil
	case "request-cancelled":
		ctx, cancel := context.WithCancel(validate.WithOperationRequest(bg))
		cancel()
		return ctx, nil
	case "request-plus-value":
		return context.WithValue(validate.WithOperationRequest(bg), otherKey{}, 1), nil
	}
	return nil, fmt.Errorf("unknown context %q", name)
}

var customFormats = map[string]func(string) bool{
	"even":   func(s string) bool { return len(s)%2 == 0 },
	"has-a":  func(s string) bool { return strings.Contains(s, "a") },
	"never":  func(string) bool { return false },
	"always": func(string) bool { return true },
}

// fakeRegistry is a registry double: exact-name lookup, deterministic
// validators; every other method of the interface panics (nil embedded
// interface), which check reports as a failure.
type fakeRegistry struct {
	strfmt.Registry
}

func (fakeRegistry) ContainsName(n string) bool { _, ok := customFormats[n]; return ok }
func (fakeRegistry) Validates(n, d string) bool {
	f, ok := customFormats[n]
	return ok && f(d)
}

// ---------------------------------------------------------------------------
// generator

var helperWeights = func() []string {
	w := []struct {
		n string
		k int
	}{{"Enum", 12}, {"EnumCase", 13}, {"UniqueItems", 10}, {"Pattern", 10}, {"MinLength", 7}, {"MaxLength", 7}, {"MinItems", 6},
		{"MaxItems", 6}, {"Required", 8}, {"ReadOnly", 8}, {"RequiredString", 6}, {"RequiredNumber", 6}, {"FormatOf", 7}}
	var out []string
	for _, e := range w {
		for i := 0; i < e.k; i++ {
			out = append(out, e.n)
		}
	}
	return out
}()

var paths = []string{"", "name", "items.0", "a.b"}
var ins = []string{"", "body", "query", "header"}

var units = []string{"a", "Z", " ", "é", "日", "😀", "\u0301", "\xff", "\xe6\x97", "\xed\xa0\x80", "\xc0\x80", "\x00", "\uFFFD"}

// rapid's integer and sampling generators favour small values and the ends of
// the range (good for sizes, bad for choices between alternatives: the first
// alternative would get a third of the cases). Choices are therefore built from
// fair bits; they still shrink towards the first alternative.
func irange(t *rapid.T, lo, hi int, label string) int {
	v := 0
	for _, b := range rapid.SliceOfN(rapid.Bool(), 12, 12).Draw(t, label) {
		v <<= 1
		if b {
			v |= 1
		}
	}
	return lo + v*(hi-lo+1)/4096
}

func sample[T any](t *rapid.T, xs []T, label string) T {
	return xs[irange(t, 0, len(xs)-1, label)]
}

func genUnits(t *rapid.T, max int) string {
	n := irange(t, 0, max, "nunits")
	var sb strings.Builder
	for i := 0; i < n; i++ {
		sb.WriteString(sample(t, units, "unit"))
	}
	return sb.String()
}

var intSmall = []string{"-1", "0", "1", "2", "65", "255"}
var intWide = []string{"-129", "-128", "97", "127", "128", "256", "32767", "65533", "65535", "65536", "55296", "1114112", "2147483647", "2147483648",
	"4294967295", "4294967296", "9007199254740992", "9007199254740993", "9223372036854775807", "-9223372036854775808", "18446744073709551615"}
var f64Small = []string{"0", "1", "-1", "1.5", "0.5", "2", "65", "255", "0.1"}
var f64Wide = []string{"-0", "256", "1e+10", "9007199254740992", "9.223372036854775807e+18", "1.8446744073709552e+19", "1e+300", "5e-324", "+Inf", "-Inf", "0.10000000149011612", "-1.5", "128"}
var f32Small = []string{"0", "1", "-1", "1.5", "0.5", "2", "65", "255", "0.1"}
var f32Wide = []string{"-0", "256", "16777216", "3.4028235e+38", "1e-45", "+Inf", "-Inf", "-1.5", "128"}

func inRange(v string, kind string) bool {
	_, err := buildScalar(kind, v)
	return err == nil
}

var numPools = func() map[string][2][]string {
	m := map[string][2][]string{"float64": {f64Small, f64Wide}, "float32": {f32Small, f32Wide}}
	for _, k := range intKinds {
		var p [2][]string
		for i, src := range [2][]string{intSmall, intWide} {
			for _, v := range src {
				if inRange(v, k) {
					p[i] = append(p[i], v)
				}
			}
		}
		m[k] = p
	}
	return m
}()

func genNum(t *rapid.T, kind string, nan bool) TV {
	if kind == "" {
		kind = sample(t, numKinds, "numkind")
	}
	p := numPools[kind]
	pool := p[0]
	if irange(t, 0, 9, "wide") >= 7 {
		pool = p[1]
	}
	if nan && isFloatKind(kind) && irange(t, 0, 7, "nan") == 0 {
		return TV{K: kind, V: "NaN"}
	}
	return TV{K: kind, V: Str(sample(t, pool, "num"))}
}

var strPool = []string{"", "a", "A", "ab", "AB", "aB", "é", "É", "k", "K", "\u212a", "ß", "ẞ", "σ", "ς", "Σ", "ǆ", "ǅ", "Ǆ", "İ", "i", "ı", "I",
	"\xff", "\xfe", "\uFFFD", "a\xff", "A\xff", "A\xfe", "1", "65", "label", "LABEL", "b"}
var strSmall = []string{"", "a", "A", "ab", "AB", "b"}

func genStr(t *rapid.T, kind string) TV {
	pool := strSmall
	if rapid.Bool().Draw(t, "widestr") {
		pool = strPool
	}
	return TV{K: kind, V: Str(sample(t, pool, "str"))}
}

func genScalarOf(t *rapid.T, kind string, nan bool) TV {
	switch {
	case kind == "bool":
		return TV{K: "bool", V: Str(strconv.FormatBool(rapid.Bool().Draw(t, "b")))}
	case isStrKind(kind):
		return genStr(t, kind)
	}
	return genNum(t, kind, nan)
}

var scalarKinds = append(append([]string{"bool", "string", "stringer"}, intKinds...), floatKinds...)

type genOpts struct {
	carrier string // Go kind used for every number ("" = any)
	nan     bool
	funcs   bool
}

func pickKind(t *rapid.T, o genOpts) string {
	k := sample(t, scalarKinds, "ekind")
	if isNumKind(k) && o.carrier != "" {
		return o.carrier
	}
	return k
}

func genSeqItems(t *rapid.T, depth int, e string, o genOpts, max int) []TV {
	n := irange(t, 0, max, "nitems")
	items := make([]TV, 0, n)
	for i := 0; i < n; i++ {
		if e == "any" {
			items = append(items, genAny(t, depth-1, o))
		} else {
			items = append(items, genScalarOf(t, e, o.nan))
		}
	}
	return items
}

// genAny draws a typed value of nesting depth <= depth.
func genAny(t *rapid.T, depth int, o genOpts) TV {
	hi := 19
	if depth <= 0 {
		hi = 9
	}
	switch k := irange(t, 0, hi, "valkind"); k {
	case 0:
		return TV{K: "nil"}
	case 1:
		return genScalarOf(t, "bool", false)
	case 2, 3:
		return genStr(t, "string")
	case 4:
		if rapid.Bool().Draw(t, "fn") && o.funcs {
			return TV{K: "func", Nil: rapid.Bool().Draw(t, "nilfn")}
		}
		return genStr(t, "stringer")
	case 5, 6, 7, 8:
		return genNum(t, o.carrier, o.nan)
	case 9:
		e := pickKind(t, o)
		if irange(t, 0, 2, "nilptr") == 0 {
			return TV{K: "ptr", E: e, Nil: true}
		}
		return TV{K: "ptr", E: e, Items: []TV{genScalarOf(t, e, o.nan)}}
	case 10, 11, 12:
		switch irange(t, 0, 5, "nilslice") {
		case 0:
			return TV{K: "slice", E: "any", Nil: true}
		case 1:
			return TV{K: "slice", E: "any"}
		}
		return TV{K: "slice", E: "any", Items: genSeqItems(t, depth, "any", o, 3)}
	case 13:
		e := pickKind(t, o)
		if irange(t, 0, 4, "nilslice") == 0 {
			return TV{K: "slice", E: e, Nil: true}
		}
		return TV{K: "slice", E: e, Items: genSeqItems(t, depth, e, o, 3)}
	case 14:
		e := "any"
		if rapid.Bool().Draw(t, "typedarr") {
			e = pickKind(t, o)
		}
		return TV{K: "array", E: e, Items: genSeqItems(t, depth, e, o, 3)}
	case 15, 16:
		switch irange(t, 0, 5, "nilmap") {
		case 0:
			return TV{K: "map", Nil: true}
		case 1:
			return TV{K: "map"}
		}
		m := TV{K: "map"}
		for _, key := range []string{"a", "b", "\xff"} {
			if rapid.Bool().Draw(t, "haskey") {
				m.Keys = append(m.Keys, Str(key))
				m.Items = append(m.Items, genAny(t, depth-1, o))
			}
		}
		return m
	case 17:
		return TV{K: "struct", E: "pair", Items: []TV{
			{K: "int", V: Str(sample(t, []string{"0", "0", "1"}, "n"))},
			{K: "string", V: Str(sample(t, []string{"", "", "a"}, "s"))}}}
	case 18:
		l := TV{K: "slice", E: "int"}
		switch irange(t, 0, 2, "boxl") {
		case 0:
			l.Nil = true
		case 1:
			l.Items = []TV{{K: "int", V: "0"}}
		}
		return TV{K: "struct", E: "boxed", Items: []TV{{K: "int", V: Str(sample(t, []string{"0", "0", "1"}, "n"))}, l}}
	default:
		return genNum(t, o.carrier, o.nan)
	}
}

func clone(tv TV) TV {
	out := tv
	if tv.Items != nil {
		out.Items = make([]TV, len(tv.Items))
		for i, it := range tv.Items {
			out.Items[i] = clone(it)
		}
	}
	if tv.Keys != nil {
		out.Keys = append([]Str(nil), tv.Keys...)
	}
	return out
}

// reKind re-expresses a number in another Go kind when that is exact.
func reKind(tv TV, kind string) (TV, bool) {
	n, ok := numOf(tv)
	if !ok || n.nan {
		return tv, false
	}
	if isFloatKind(kind) {
		bits := 64
		if kind == "float32" {
			bits = 32
		}
		var f float64
		switch {
		case n.inf > 0:
			f = math.Inf(1)
		case n.inf < 0:
			f = math.Inf(-1)
		default:
			var exact bool
			if bits == 32 {
				var f32 float32
				f32, exact = n.r.Float32()
				f = float64(f32)
			} else {
				f, exact = n.r.Float64()
			}
			if !exact {
				return tv, false
			}
		}
		return TV{K: kind, V: Str(strconv.FormatFloat(f, 'g', -1, bits))}, true
	}
	if n.inf != 0 || !n.r.IsInt() {
		return tv, false
	}
	v := n.r.Num().String()
	if !inRange(v, kind) {
		return tv, false
	}
	return TV{K: kind, V: Str(v)}, true
}

// variant returns the value itself or a near miss of it.
func variant(t *rapid.T, tv TV) TV {
	out := clone(tv)
	if irange(t, 0, 9, "exact") < 4 {
		return out
	}
	switch {
	case isNumKind(tv.K):
		if r, ok := reKind(tv, sample(t, numKinds, "rekind")); ok {
			return r
		}
	case isStrKind(tv.K):
		switch irange(t, 0, 3, "strvar") {
		case 0:
			out.V = Str(strings.ToUpper(string(tv.V)))
		case 1:
			out.V = Str(strings.ToLower(string(tv.V)))
		case 2:
			out.V = tv.V + "a"
		default:
			if tv.K == "string" {
				out.K = "stringer"
			} else {
				out.K = "string"
			}
		}
	case tv.K == "slice" || tv.K == "map":
		if len(tv.Items) == 0 {
			out.Nil = !tv.Nil
			return out
		}
		i := irange(t, 0, len(tv.Items)-1, "varidx")
		out.Items[i] = variant(t, tv.Items[i])
		if tv.K == "slice" && tv.E != "any" && out.Items[i].K != tv.E {
			out.Items[i] = clone(tv.Items[i])
		}
	case tv.K == "nil":
		return TV{K: "slice", E: "any", Nil: true}
	case tv.K == "ptr" && !tv.Nil:
		if tv.Items[0].K == "int" {
			out.Items[0].V = "1"
		}
	}
	return out
}

func insertAt(items []TV, i int, v TV) []TV {
	out := append([]TV{}, items[:i]...)
	out = append(out, v)
	return append(out, items[i:]...)
}

func genEnum(t *rapid.T, c *Case) {
	if c.Helper == "EnumCase" {
		c.CS = irange(t, 0, 2, "cs") == 0
	}
	var data, enum TV
	mode := irange(t, 0, 11, "enummode")
	switch {
	case mode <= 2: // numbers across kinds
		data = genNum(t, "", false)
		e := sample(t, append([]string{"any", "any"}, numKinds...), "ekind")
		enum = TV{K: "slice", E: e}
		n := irange(t, 0, 4, "n")
		for i := 0; i < n; i++ {
			k := e
			if e == "any" {
				k = ""
			}
			enum.Items = append(enum.Items, genNum(t, k, false))
		}
		if irange(t, 0, 2, "inject") == 0 {
			k := e
			if e == "any" {
				k = sample(t, numKinds, "injkind")
			}
			if r, ok := reKind(data, k); ok {
				enum.Items = insertAt(enum.Items, irange(t, 0, len(enum.Items), "pos"), r)
			}
		}
	case mode <= 5: // strings, case folding
		dk := "string"
		if irange(t, 0, 5, "dstringer") == 0 {
			dk = "stringer"
		}
		data = genStr(t, dk)
		e := sample(t, []string{dk, dk, dk, "any", "any", "string", "stringer"}, "ekind")
		enum = TV{K: "slice", E: e}
		n := irange(t, 0, 4, "n")
		for i := 0; i < n; i++ {
			k := e
			if e == "any" {
				k = dk
				if irange(t, 0, 7, "otherstr") == 0 {
					k = "string"
				}
			}
			enum.Items = append(enum.Items, genStr(t, k))
		}
		if irange(t, 0, 2, "inject") == 0 {
			v := variant(t, data)
			if e != "any" {
				v.K = e
			}
			enum.Items = insertAt(enum.Items, irange(t, 0, len(enum.Items), "pos"), v)
		}
	case mode == 6: // conversions between unrelated types
		switch irange(t, 0, 2, "conv") {
		case 0:
			k := sample(t, intKinds, "ik")
			v := sample(t, []string{"65", "97", "55296", "1114112", "65533", "-1", "255", "1"}, "iv")
			if !inRange(v, k) {
				v = "65"
			}
			data = TV{K: k, V: Str(v)}
			enum = TV{K: "slice", E: sample(t, []string{"string", "any"}, "ekind")}
			n := irange(t, 1, 3, "n")
			for i := 0; i < n; i++ {
				enum.Items = append(enum.Items, TV{K: "string", V: Str(sample(t, []string{"A", "a", "\uFFFD", "1", "65", "\xff", "\x01"}, "sv"))})
			}
		case 1:
			data = TV{K: "string", V: Str(sample(t, []string{"A", "ab", "", "é"}, "sv"))}
			enum = TV{K: "slice", E: "any"}
			n := irange(t, 1, 3, "n")
			for i := 0; i < n; i++ {
				e := sample(t, []string{"uint8", "int32", "uint8", "int"}, "bk")
				s := TV{K: "slice", E: e}
				for _, b := range []byte(sample(t, []string{"A", "ab", "", "B"}, "bytes")) {
					s.Items = append(s.Items, TV{K: e, V: Str(strconv.Itoa(int(b)))})
				}
				enum.Items = append(enum.Items, s)
			}
		default:
			e := sample(t, []string{"uint8", "int32"}, "bk")
			data = TV{K: "slice", E: e}
			for _, b := range []byte(sample(t, []string{"A", "ab", ""}, "bytes")) {
				data.Items = append(data.Items, TV{K: e, V: Str(strconv.Itoa(int(b)))})
			}
			enum = TV{K: "slice", E: sample(t, []string{"string", "any"}, "ekind")}
			n := irange(t, 1, 3, "n")
			for i := 0; i < n; i++ {
				enum.Items = append(enum.Items, TV{K: "string", V: Str(sample(t, []string{"A", "ab", "", "B"}, "sv"))})
			}
		}
	case mode == 7: // nil candidate
		data = TV{K: "nil"}
		enum = TV{K: "slice", E: "any"}
		n := irange(t, 0, 4, "n")
		for i := 0; i < n; i++ {
			switch irange(t, 0, 4, "nilmember") {
			case 0, 1:
				enum.Items = append(enum.Items, TV{K: "nil"})
			case 2:
				enum.Items = append(enum.Items, genAny(t, 0, genOpts{}))
			default:
				enum.Items = append(enum.Items, genNum(t, "", false))
			}
		}
		if irange(t, 0, 5, "typed") == 0 {
			enum = TV{K: "slice", E: sample(t, scalarKinds, "ekind")}
			enum.Items = genSeqItems(t, 0, enum.E, genOpts{}, 3)
		}
	case mode == 8: // slice candidate, array members
		e := sample(t, []string{"int", "int", "any", "string"}, "ekind")
		o := genOpts{carrier: "int"}
		data = TV{K: "slice", E: e, Items: genSeqItems(t, 1, e, o, 3)}
		enum = TV{K: "slice", E: "any"}
		n := irange(t, 1, 3, "n")
		for i := 0; i < n; i++ {
			k := sample(t, []string{"array", "array", "slice"}, "seqkind")
			m := TV{K: k, E: e, Items: genSeqItems(t, 1, e, o, 3)}
			if irange(t, 0, 2, "copy") == 0 {
				m.Items = clone(data).Items
			}
			enum.Items = append(enum.Items, m)
		}
	default: // anything
		o := genOpts{}
		if irange(t, 0, 3, "homog") != 0 {
			o.carrier = sample(t, numKinds, "carrier")
		}
		data = genAny(t, 2, o)
		enum = TV{K: "slice", E: "any"}
		n := irange(t, 0, 4, "n")
		for i := 0; i < n; i++ {
			enum.Items = append(enum.Items, genAny(t, 2, o))
		}
		if irange(t, 0, 9, "inject") < 6 {
			enum.Items = insertAt(enum.Items, irange(t, 0, len(enum.Items), "pos"), variant(t, data))
		}
		if len(enum.Items) == 0 && rapid.Bool().Draw(t, "nilenum") {
			enum.Nil = true
		}
	}
	if irange(t, 0, 39, "notaslice") == 0 {
		enum = sample(t, []TV{{K: "nil"}, {K: "int", V: "1"}, {K: "string", V: "a"}, {K: "array", E: "int", Items: []TV{{K: "int", V: "1"}}}, {K: "map"}}, "badenum")
	}
	c.Data, c.Enum = &data, &enum
}

func genUnique(t *rapid.T, c *Case) {
	o := genOpts{carrier: sample(t, numKinds, "carrier")}
	if irange(t, 0, 7, "mixed") == 0 {
		o.carrier = ""
	}
	var data TV
	switch irange(t, 0, 9, "uniqmode") {
	case 0:
		data = genAny(t, 1, o) // mostly not a slice
	case 1, 2, 3:
		e := pickKind(t, o)
		data = TV{K: "slice", E: e, Items: genSeqItems(t, 1, e, o, 5)}
		if len(data.Items) == 0 {
			data.Nil = rapid.Bool().Draw(t, "nil")
		}
	default:
		data = TV{K: "slice", E: "any", Items: genSeqItems(t, 2, "any", o, 5)}
		if n := len(data.Items); n > 0 && irange(t, 0, 2, "dup") == 0 {
			src := irange(t, 0, n-1, "src")
			data.Items = insertAt(data.Items, irange(t, 0, n, "pos"), variant(t, data.Items[src]))
		}
	}
	c.Data = &data
}

// pattern atoms with a string each of them matches
var patternAtoms = [][2]string{{"a", "a"}, {"b", "b"}, {"é", "é"}, {"日", "日"}, {".", "x"}, {`\d`, "1"}, {`\w+`, "k1"}, {"[a-c]", "c"}, {"[^a]", "b"}, {"^", ""}, {"$", ""},
	{"(ab)", "ab"}, {"a|b", "b"}, {"x*", "xx"}, {"y?", ""}, {`\.`, "."}, {"(?i)k", "K"}, {`\x{65e5}`, "日"}, {"a{2}", "aa"}, {`\s`, " "}, {`\pL`, "é"}, {"", ""},
	{"(?s).", "\n"}, {`\b`, ""}, {`\z`, ""}, {"ab", "ab"}, {"[^b]", "\xff"}, {`\C`, "\xff"}}
var badPatterns = []string{"(", ")", "[a", "a**", `\p{Foo}`, "(?P<n", "a{2,1}", `\`, "(?=x)", "(?!a)b", `\1`, "*a", "[z-a]", "\xff", "a\xe6\x97", "(?<!x)y", "a{1001}", `\c`, "(?#c)"}
var subjectUnits = []string{"a", "b", "c", "x", "y", "k", "K", "1", ".", " ", "\n", "é", "日", "\xff", "ab", "aa"}

func genPattern(t *rapid.T, c *Case) {
	var p, ex string
	switch irange(t, 0, 9, "patmode") {
	case 0, 1:
		p = sample(t, badPatterns, "bad")
	case 2:
		p = sample(t, patternAtoms, "atom")[0] + sample(t, badPatterns, "bad")
	default:
		n := irange(t, 1, 4, "natoms")
		for i := 0; i < n; i++ {
			a := sample(t, patternAtoms, "atom")
			p += a[0]
			ex += a[1]
		}
	}
	junk := func(label string) string {
		n := irange(t, 0, 2, label)
		var s string
		for i := 0; i < n; i++ {
			s += sample(t, subjectUnits, "sub")
		}
		return s
	}
	var s string
	if rapid.Bool().Draw(t, "fromexample") {
		s = junk("before") + ex + junk("after")
	} else {
		s = junk("before") + junk("more") + junk("after")
	}
	c.P, c.S = Str(p), Str(s)
}

var extremes = []int64{0, 1, -1, math.MaxInt64, math.MinInt64, math.MaxInt32, 1 << 32}

var defaultFormatNames = []string{"date", "date-time", "datetime", "uuid", "uuid4", "email", "ipv4", "ipv6", "hostname", "uri", "byte", "password", "duration",
	"mac", "cidr", "isbn", "hexcolor", "creditcard", "ssn", "bsonobjectid", "ulid", "uuid-3", "d-a-t-e",
	"nope", "Date", "DATE-TIME", "", "int32", "date time", "even", "has-a", "never", "always", "Even", "hasa", "\xff"}
var formatData = []string{"2020-01-02", "2020-13-40", "2020-01-02T03:04:05Z", "not a date", "550e8400-e29b-41d4-a716-446655440000", "a@b.co", "@",
	"1.2.3.4", "1.2.3.400", "::1", "example.com", "-bad-.com", "http://x.y/z", "://", "aGVsbG8=", "***", "1h", "1 fortnight", "00:11:22:33:44:55",
	"10.0.0.0/8", "#fff", "#ggg", "", "a", "aa", "\xff", "é", "b", "507f1f77bcf86cd799439011", "01ARZ3NDEKTSV4RRFFQ69G5FAV", "4111111111111111", "111-11-1111", "0306406152"}

// data that is likely to suit a format name (only steers the generator)
var formatExample = map[string]string{"date": "2020-01-02", "d-a-t-e": "2020-01-02", "date-time": "2020-01-02T03:04:05Z", "datetime": "2020-01-02T03:04:05Z",
	"uuid": "550e8400-e29b-41d4-a716-446655440000", "uuid4": "550e8400-e29b-41d4-a716-446655440000", "email": "a@b.co", "ipv4": "1.2.3.4", "ipv6": "::1",
	"hostname": "example.com", "uri": "http://x.y/z", "byte": "aGVsbG8=", "password": "***", "duration": "1h", "mac": "00:11:22:33:44:55", "cidr": "10.0.0.0/8",
	"isbn": "0306406152", "hexcolor": "#fff", "creditcard": "4111111111111111", "ssn": "111-11-1111", "bsonobjectid": "507f1f77bcf86cd799439011",
	"ulid": "01ARZ3NDEKTSV4RRFFQ69G5FAV", "even": "aa", "has-a": "a"}

func gen(t *rapid.T) Case {
	c := Case{Helper: sample(t, helperWeights, "helper")}
	c.Path = sample(t, paths, "path")
	c.In = sample(t, ins, "in")
	switch c.Helper {
	case "MinLength", "MaxLength":
		s := genUnits(t, 8)
		r, b := runeCount(s), int64(len(s))
		switch irange(t, 0, 5, "limitmode") {
		case 0, 1:
			c.Limit = r + int64(irange(t, -2, 2, "d"))
		case 2:
			c.Limit = b + int64(irange(t, -1, 1, "d"))
		case 3, 4:
			c.Limit = int64(irange(t, 0, int(b-r), "between")) + r
		default:
			c.Limit = sample(t, extremes, "extreme")
		}
		c.S = Str(s)
	case "Pattern":
		genPattern(t, &c)
	case "MinItems", "MaxItems":
		if irange(t, 0, 4, "extreme") == 0 {
			c.Size = sample(t, extremes, "size")
			c.Limit = sample(t, extremes, "limit")
		} else {
			c.Size = int64(irange(t, -1, 6, "size"))
			c.Limit = c.Size + int64(irange(t, -2, 2, "d"))
		}
	case "Enum", "EnumCase":
		genEnum(t, &c)
	case "UniqueItems":
		genUnique(t, &c)
	case "Required", "ReadOnly":
		o := genOpts{nan: true, funcs: true}
		v := genAny(t, 2, o)
		c.Data = &v
		if c.Helper == "ReadOnly" {
			c.Ctx = sample(t, ctxNames, "ctx")
		}
	case "RequiredString":
		if irange(t, 0, 2, "empty") == 0 {
			c.S = ""
		} else {
			c.S = Str(genUnits(t, 2))
		}
	case "RequiredNumber":
		if irange(t, 0, 3, "anyfloat") == 0 {
			c.F = strconv.FormatFloat(rapid.Float64().Draw(t, "f"), 'g', -1, 64)
		} else {
			c.F = sample(t, []string{"0", "0", "0", "-0", "1", "-1", "5e-324", "-5e-324", "NaN", "+Inf", "-Inf", "1e-300", "0.5"}, "f")
		}
	case "FormatOf":
		c.Reg = sample(t, []string{"nil", "default", "custom"}, "registry")
		c.P = Str(sample(t, defaultFormatNames, "format"))
		if c.Reg == "custom" && rapid.Bool().Draw(t, "customname") {
			c.P = Str(sample(t, []string{"even", "has-a", "never", "always"}, "format"))
		}
		c.S = Str(sample(t, formatData, "data"))
		if ex, ok := formatExample[string(c.P)]; ok && rapid.Bool().Draw(t, "suitable") {
			c.S = Str(ex)
		}
	}
	return c
}

// ---------------------------------------------------------------------------
// check

type result struct {
	isErr    bool
	msg      string
	code     int32
	panicked bool
	pv       string
}

func call(f func() *oaerrors.Validation) (r result) {
	defer func() {
		if p := recover(); p != nil {
			r = result{panicked: true, pv: fmt.Sprint(p)}
		}
	}()
	if e := f(); e != nil {
		r.isErr, r.msg, r.code = true, e.Error(), e.Code()
	}
	return r
}

func shape(tv TV) string {
	switch {
	case tv.K == "nil":
		return "untyped-nil"
	case tv.Nil:
		return "typed-nil"
	case isNumKind(tv.K):
		return "number"
	case tv.K == "slice" || tv.K == "map" || tv.K == "array":
		if len(tv.Items) == 0 {
			return "empty-" + tv.K
		}
		return tv.K
	}
	return tv.K
}

func verdict(expectErr bool) string {
	if expectErr {
		return "expect-error"
	}
	return "expect-nil"
}

// judge compares the library's answer with the expectation.
func judge(out *ev.Outcome, c Case, r result, expectErr bool, why string) {
	out.Classes = append(out.Classes, c.Helper+":"+verdict(expectErr))
	if r.isErr != expectErr {
		got := "nil"
		if r.isErr {
			got = "error " + strconv.Quote(r.msg)
		}
		out.Fail = fmt.Sprintf("%s returned %s, textbook definition says %s (%s)", c.Helper, got, verdict(expectErr), why)
	}
}

func check(c Case) (out ev.Outcome) {
	defer func() {
		if r := recover(); r != nil {
			out = ev.Failf("panic in check or oracle: %v", r)
		}
	}()
	out.Classes = []string{"helper:" + c.Helper}
	path, in := c.Path, c.In

	// run executes the helper twice on the same arguments and checks purity;
	// args/pristine are two independently built copies of the mutable arguments.
	run := func(f func() *oaerrors.Validation, args, pristine []interface{}) (result, bool) {
		r1 := call(f)
		r2 := call(f)
		if r1 != r2 {
			out.Fail = fmt.Sprintf("%s is not a function of its arguments: first call %+v, second call %+v", c.Helper, r1, r2)
			return r1, false
		}
		for i := range args {
			if !sameIface(args[i], pristine[i]) {
				out.Fail = fmt.Sprintf("%s modified its argument #%d: now %v, was %v", c.Helper, i, args[i], pristine[i])
				return r1, false
			}
		}
		if r1.panicked && !strings.HasPrefix(c.Helper, "Enum") {
			out.Fail = fmt.Sprintf("%s panicked: %s", c.Helper, r1.pv)
			return r1, false
		}
		return r1, true
	}

	switch c.Helper {
	case "MinLength", "MaxLength":
		s := string(c.S)
		runes, bytes := runeCount(s), int64(len(s))
		var r result
		var ok, expect bool
		if c.Helper == "MinLength" {
			r, ok = run(func() *oaerrors.Validation { return validate.MinLength(path, in, s, c.Limit) }, nil, nil)
			expect = runes < c.Limit
		} else {
			r, ok = run(func() *oaerrors.Validation { return validate.MaxLength(path, in, s, c.Limit) }, nil, nil)
			expect = runes > c.Limit
		}
		if !ok {
			return out
		}
		if bytes != runes {
			out.Classes = append(out.Classes, c.Helper+":multibyte-or-invalid")
			out.Nontrivial = c.Limit >= runes-1 && c.Limit <= bytes+1
		}
		if !utf8.ValidString(s) {
			out.Classes = append(out.Classes, c.Helper+":invalid-utf8")
		}
		judge(&out, c, r, expect, fmt.Sprintf("%d code points, %d bytes, limit %d", runes, bytes, c.Limit))

	case "Pattern":
		s, p := string(c.S), string(c.P)
		r, ok := run(func() *oaerrors.Validation { return validate.Pattern(path, in, s, p) }, nil, nil)
		if !ok {
			return out
		}
		re, err := regexp.Compile(p)
		expect := err != nil
		switch {
		case err != nil:
			out.Classes = append(out.Classes, "Pattern:invalid-pattern")
			out.Nontrivial = true
		default:
			expect = !re.MatchString(s)
			if !expect {
				if anch, err := regexp.Compile("^(?:" + p + ")$"); err == nil && !anch.MatchString(s) {
					out.Classes = append(out.Classes, "Pattern:substring-match-only")
					out.Nontrivial = true
				}
			}
		}
		judge(&out, c, r, expect, fmt.Sprintf("pattern %q, data %q", p, s))

	case "MinItems", "MaxItems":
		var r result
		var ok, expect bool
		if c.Helper == "MinItems" {
			r, ok = run(func() *oaerrors.Validation { return validate.MinItems(path, in, c.Size, c.Limit) }, nil, nil)
			expect = c.Size < c.Limit
		} else {
			r, ok = run(func() *oaerrors.Validation { return validate.MaxItems(path, in, c.Size, c.Limit) }, nil, nil)
			expect = c.Size > c.Limit
		}
		if !ok {
			return out
		}
		d := new(big.Int).Sub(big.NewInt(c.Size), big.NewInt(c.Limit))
		if d.CmpAbs(big.NewInt(1)) <= 0 {
			out.Nontrivial = true
			out.Classes = append(out.Classes, c.Helper+":at-the-limit")
		}
		judge(&out, c, r, expect, fmt.Sprintf("size %d, limit %d", c.Size, c.Limit))

	case "RequiredString":
		s := string(c.S)
		r, ok := run(func() *oaerrors.Validation { return validate.RequiredString(path, in, s) }, nil, nil)
		if !ok {
			return out
		}
		out.Nontrivial = s == "" || s == "\x00" || s == " "
		judge(&out, c, r, s == "", fmt.Sprintf("data %q", s))

	case "RequiredNumber":
		f, err := strconv.ParseFloat(c.F, 64)
		if err != nil && !math.IsInf(f, 0) {
			return ev.Failf("harness: bad float %q", c.F)
		}
		r, ok := run(func() *oaerrors.Validation { return validate.RequiredNumber(path, in, f) }, nil, nil)
		if !ok {
			return out
		}
		zero, det := zeroOf(TV{K: "float64", V: Str(c.F)})
		out.Nontrivial = zero || !det || math.IsNaN(f) || math.Abs(f) < 1e-300
		if !det {
			out.Excluded = append(out.Excluded, "negative-zero")
			return out
		}
		judge(&out, c, r, zero, "data "+c.F)

	case "Required", "ReadOnly":
		if c.Data == nil {
			return ev.Failf("harness: no data")
		}
		v1, err := build(*c.Data)
		if err != nil {
			return ev.Failf("harness: %v", err)
		}
		v2, _ := build(*c.Data)
		zero, det := zeroOf(*c.Data)
		sh := shape(*c.Data)
		out.Classes = append(out.Classes, c.Helper+":data:"+sh)
		ptrToZero := false
		if c.Data.K == "ptr" && !c.Data.Nil && len(c.Data.Items) == 1 {
			ptrToZero, _ = zeroOf(c.Data.Items[0])
		}
		out.Nontrivial = zero || !det || sh == "typed-nil" || strings.HasPrefix(sh, "empty-") || ptrToZero || c.Data.V == "NaN"
		var r result
		var ok bool
		expect := zero
		why := fmt.Sprintf("value %v is zero: %v", *c.Data, zero)
		if c.Helper == "Required" {
			r, ok = run(func() *oaerrors.Validation { return validate.Required(path, in, v1) }, []interface{}{v1}, []interface{}{v2})
		} else {
			ctx, err := buildCtx(c.Ctx)
			if err != nil {
				return ev.Failf("harness: %v", err)
			}
			out.Classes = append(out.Classes, "ReadOnly:ctx:"+c.Ctx)
			r, ok = run(func() *oaerrors.Validation { return validate.ReadOnly(ctx, path, in, v1) }, []interface{}{v1}, []interface{}{v2})
			expect = isRequest[c.Ctx] && !zero
			why += fmt.Sprintf(", context %s is a request context: %v", c.Ctx, isRequest[c.Ctx])
			if !isRequest[c.Ctx] {
				det = true // the value does not matter
			}
		}
		if !ok {
			return out
		}
		if !det {
			out.Excluded = append(out.Excluded, "negative-zero")
			return out
		}
		judge(&out, c, r, expect, why)

	case "FormatOf":
		name, data := string(c.P), string(c.S)
		var reg strfmt.Registry
		var known, valid bool
		switch c.Reg {
		case "nil":
			known = strfmt.Default.ContainsName(name)
			valid = known && strfmt.Default.Validates(name, data)
		case "default":
			reg = strfmt.Default
			known = strfmt.Default.ContainsName(name)
			valid = known && strfmt.Default.Validates(name, data)
		case "custom":
			reg = fakeRegistry{}
			f, ok := customFormats[name]
			known = ok
			valid = ok && f(data)
		default:
			return ev.Failf("harness: unknown registry %q", c.Reg)
		}
		r, ok := run(func() *oaerrors.Validation { return validate.FormatOf(path, in, name, data, reg) }, nil, nil)
		if !ok {
			return out
		}
		out.Classes = append(out.Classes, "FormatOf:registry:"+c.Reg)
		if !known {
			out.Classes = append(out.Classes, "FormatOf:unknown-name")
		}
		normalised := known && c.Reg != "custom" && strings.ContainsAny(name, "-ABCDEFGHIJKLMNOPQRSTUVWXYZ")
		out.Nontrivial = !known || c.Reg == "nil" || normalised
		judge(&out, c, r, !known || !valid, fmt.Sprintf("registry %s, format %q known: %v, data %q valid: %v", c.Reg, name, known, data, valid))

	case "UniqueItems":
		if c.Data == nil {
			return ev.Failf("harness: no data")
		}
		v1, err := build(*c.Data)
		if err != nil {
			return ev.Failf("harness: %v", err)
		}
		v2, _ := build(*c.Data)
		r, ok := run(func() *oaerrors.Validation { return validate.UniqueItems(path, in, v1) }, []interface{}{v1}, []interface{}{v2})
		if !ok {
			return out
		}
		out.Classes = append(out.Classes, "UniqueItems:data:"+shape(*c.Data))
		switch c.Data.K {
		case "slice":
		case "array":
			out.Excluded = append(out.Excluded, "uniqueitems-go-array")
			return out
		default:
			judge(&out, c, r, false, "not a list: no items")
			return out
		}
		dup, undet, nested := false, false, false
		items := c.Data.Items
		for i := range items {
			if k := items[i].K; k == "slice" || k == "array" || k == "map" || k == "struct" || k == "ptr" {
				nested = true
			}
			for j := 0; j < i; j++ {
				r := cmp(items[j], items[i], false)
				if r == unk && cat(items[j]) == "num" && cat(items[i]) == "num" {
					// numerically equal numbers of different Go types are equal items (the statement's
					// cross-type clause covers UniqueItems as well as Enum and EnumCase)
					if na, oka := numOf(items[j]); oka {
						if nb, okb := numOf(items[i]); okb {
							r = numEq(na, nb)
						}
					}
				}
				switch r {
				case yes:
					dup = true
				case unk:
					undet = true
				}
			}
		}
		out.Nontrivial = len(items) >= 2 && (dup || nested || undet)
		if nested {
			out.Classes = append(out.Classes, "UniqueItems:nested-items")
		}
		if !dup && undet {
			out.Excluded = append(out.Excluded, "uniqueitems-undetermined-pair(mixed carrier, nil-vs-empty, NaN, ...)")
			return out
		}
		judge(&out, c, r, dup, fmt.Sprintf("items %v", *c.Data))

	case "Enum", "EnumCase":
		checkEnum(&out, c, run)

	default:
		return ev.Failf("harness: unknown helper %q", c.Helper)
	}
	return out
}

func checkEnum(out *ev.Outcome, c Case, run func(func() *oaerrors.Validation, []interface{}, []interface{}) (result, bool)) {
	if c.Data == nil || c.Enum == nil {
		out.Fail = "harness: no data/enum"
		return
	}
	d1, err1 := build(*c.Data)
	e1, err2 := build(*c.Enum)
	if err1 != nil || err2 != nil {
		out.Fail = fmt.Sprintf("harness: %v %v", err1, err2)
		return
	}
	d2, _ := build(*c.Data)
	e2, _ := build(*c.Enum)
	cs := c.CS || c.Helper == "Enum"
	f := func() *oaerrors.Validation { return validate.Enum(c.Path, c.In, d1, e1) }
	if c.Helper == "EnumCase" {
		f = func() *oaerrors.Validation { return validate.EnumCase(c.Path, c.In, d1, e1, c.CS) }
		out.Classes = append(out.Classes, fmt.Sprintf("EnumCase:case-sensitive:%v", c.CS))
	}
	r, ok := run(f, []interface{}{d1, e1}, []interface{}{d2, e2})
	if !ok {
		return
	}
	data, enum := *c.Data, *c.Enum
	out.Classes = append(out.Classes, c.Helper+":data:"+shape(data), c.Helper+":enum:[]"+enum.E)

	// non-triviality and the oracle's verdict
	anyYes, anyUnk, firstYes := false, false, -1
	crossKind, lossyCand, foldCand := false, false, false
	if enum.K == "slice" {
		for i, el := range enum.Items {
			switch cmpMember(data, el, !cs) {
			case yes:
				anyYes = true
				if firstYes < 0 {
					firstYes = i
				}
			case unk:
				anyUnk = true
			}
			if isNumKind(data.K) && isNumKind(el.K) && data.K != el.K {
				crossKind = true
			}
			if isIntKind(data.K) && isStrKind(el.K) || isStrKind(data.K) && el.K == "slice" || data.K == "slice" && isStrKind(el.K) {
				lossyCand = true
			}
			if !cs && isStrKind(data.K) && isStrKind(el.K) && data.V != el.V {
				a, b := string(data.V), string(el.V)
				if foldEq(a, b) || strings.EqualFold(a, b) {
					foldCand = true
				}
			}
		}
	}
	lastOnly := firstYes >= 0 && firstYes == len(enum.Items)-1 && len(enum.Items) >= 2
	for _, l := range []struct {
		on   bool
		name string
	}{{crossKind, "cross-kind-numbers"}, {lossyCand, "conversion-candidate"}, {foldCand, "fold-candidate"}, {lastOnly, "only-last-member-equal"}, {anyUnk, "undetermined-comparison"}} {
		if l.on {
			out.Classes = append(out.Classes, c.Helper+":"+l.name)
		}
	}
	out.Nontrivial = crossKind || lossyCand || foldCand || lastOnly || anyUnk || data.K == "nil"

	if r.panicked {
		if id, ok := ev.KnownOpen("enum_slice_to_array_panic"); ok && sliceToShorterArray(data, enum, r.pv) {
			out.Known = append(out.Known, id)
			return
		}
		out.Fail = fmt.Sprintf("%s panicked: %s", c.Helper, r.pv)
		return
	}
	if enum.K != "slice" {
		out.Excluded = append(out.Excluded, "enum-argument-not-a-slice")
		return
	}
	if !anyYes && anyUnk {
		out.Excluded = append(out.Excluded, "enum-undetermined-equality(nested carrier, nil-vs-empty, typed-vs-untyped nil, named string, NaN, func)")
		return
	}
	expectErr := !anyYes
	if r.isErr == expectErr {
		out.Classes = append(out.Classes, c.Helper+":"+verdict(expectErr))
		return
	}
	// the library deviates: is it exactly one of the recorded findings?
	if expectErr {
		// accepted a value that equals no member
		if id, ok := ev.KnownOpen("enum_lossy_conversion"); ok && matchesByConversion(data, enum, d1, e1) {
			out.Known = append(out.Known, id)
			return
		}
		if id, ok := ev.KnownOpen("enumcase_stringer_fold"); ok && !cs && matchesByStringerFold(data, enum) {
			out.Known = append(out.Known, id)
			return
		}
		if !cs && matchesByInvalidUTF8Fold(data, enum) {
			// Case folding is defined on code points; invalid UTF-8 has none. Go's convention
			// (strings.EqualFold) reads every invalid byte as U+FFFD, which makes "\xff" and
			// "\xfe" fold-equal; a stricter reading keeps them apart. The statement does not
			// settle it, so such pairs are outside the domain.
			out.Excluded = append(out.Excluded, "case-folding-over-invalid-utf8")
			return
		}
	} else if data.K == "nil" {
		// rejected an untyped nil although the untyped nil is a member
		if id, ok := ev.KnownOpen("enum_nil_data"); ok && firstYes >= 0 && enum.Items[firstYes].K == "nil" {
			out.Known = append(out.Known, id)
			return
		}
	}
	judge(out, c, r, expectErr, fmt.Sprintf("data %v, enum %v, case-sensitive %v", data, enum, cs))
}

// sliceToShorterArray: the candidate is a slice, some member is an array of the
// same element type with more elements, and the panic is reflect's refusal to
// convert the one into the other (values.go:68-70).
func sliceToShorterArray(data, enum TV, panicText string) bool {
	if data.K != "slice" || enum.K != "slice" || !strings.HasPrefix(panicText, "reflect: cannot convert slice with length") {
		return false
	}
	for _, el := range enum.Items {
		if el.K == "array" && el.E == data.E && len(el.Items) > len(data.Items) {
			return true
		}
	}
	return false
}

// matchesByConversion: some member has a different Go type than the candidate,
// the pair is one of the convertible-but-different combinations (number to
// number of another kind, integer to string, string to/from byte or rune
// slice, slice to shorter array), and Go's conversion of the candidate to the member's type yields the
// member (values.go:63-73).
func matchesByConversion(data, enum TV, dv, enumVal interface{}) bool {
	if dv == nil {
		return false
	}
	val := reflect.ValueOf(enumVal)
	for i, el := range enum.Items {
		runes := func(s TV) bool { return s.K == "slice" && (s.E == "uint8" || s.E == "int32") }
		switch {
		case isNumKind(data.K) && isNumKind(el.K) && data.K != el.K:
		case isIntKind(data.K) && isStrKind(el.K):
		case isStrKind(data.K) && runes(el):
		case runes(data) && isStrKind(el.K):
		case data.K == "slice" && el.K == "array" && data.E == el.E && len(el.Items) < len(data.Items):
		default:
			continue
		}
		m := val.Index(i).Interface()
		hit := false
		func() {
			defer func() { _ = recover() }()
			hit = reflect.DeepEqual(reflect.ValueOf(dv).Convert(reflect.TypeOf(m)).Interface(), m)
		}()
		if hit {
			return true
		}
	}
	return false
}

func rendered(tv TV) string {
	if tv.K == "stringer" {
		return "label" // what fmt's %v prints for the named string type
	}
	return string(tv.V)
}

// matchesByStringerFold: the case-insensitive comparison used the %v rendering
// of a string-kinded value whose type has a String method (values.go:91).
func matchesByStringerFold(data, enum TV) bool {
	if !isStrKind(data.K) {
		return false
	}
	for _, el := range enum.Items {
		if isStrKind(el.K) && (data.K == "stringer" || el.K == "stringer") &&
			strings.EqualFold(rendered(data), rendered(el)) && !foldEq(string(data.V), string(el.V)) {
			return true
		}
	}
	return false
}

// matchesByInvalidUTF8Fold: two plain strings, at least one not valid UTF-8,
// that strings.EqualFold calls equal (it decodes every invalid byte to U+FFFD)
// although they differ by more than case (values.go:60).
func matchesByInvalidUTF8Fold(data, enum TV) bool {
	if !isStrKind(data.K) {
		return false
	}
	for _, el := range enum.Items {
		a, b := string(data.V), string(el.V)
		if isStrKind(el.K) && (!utf8.ValidString(a) || !utf8.ValidString(b)) && strings.EqualFold(a, b) && !foldEq(a, b) {
			return true
		}
	}
	return false
}

func TestProp(t *testing.T)   { ev.Prop(t, false, gen, check) }
func TestReplay(t *testing.T) { ev.Replay(t, check) }
func FuzzC14(f *testing.F)    { ev.FuzzProp(f, false, gen, check) }
