package c18

import (
	"fmt"
	"strings"
	"testing"

	"pgregory.net/rapid"
)

func TestScratchExcluded(t *testing.T) {
	shown := 0
	rapid.Check(t, func(rt *rapid.T) {
		c := genCase(rt)
		o := check(c)
		for _, e := range o.Excluded {
			if (strings.Contains(e, "disagree") || strings.Contains(e, "library rejects")) && shown < 6 && len(c.Schema) < 900 {
				shown++
				fmt.Println("EXCL", e, "\n  ", c.Schema, "\n  ", c.Instance)
			}
		}
	})
}
