// Package c18 decides property C18: applying defaults fills exactly the absent
// members that have a default.
package c18

import (
	"encoding/json"
	"fmt"
	"runtime/debug"
	"sort"
	"testing"

	"github.com/go-openapi/strfmt"
	"github.com/go-openapi/validate"
	"github.com/go-openapi/validate/post"
	"pgregory.net/rapid"

	"verif/internal/ev"
	"verif/internal/gen"
	"verif/internal/hook"
	"verif/internal/obs"
	"verif/internal/postmodel"
	"verif/internal/refmodel"
	"verif/internal/reg"
)

var registry = reg.New()

// matcherRefDefault names the open finding "a default declared on the target
// of a $ref property schema is not applied" (see postmodel.Deviations).
const matcherRefDefault = "default_behind_property_ref"

func TestMain(m *testing.M) {
	ev.Describe("(schema, instance) pairs; 80% from a constructive generator (internal/postmodel.Gen: a tree of object/array/scalar nodes with non-null defaults on property schemas and on definitions, "+
		"objects composed of parts through allOf/anyOf/oneOf (oneOf and some anyOf alternatives guarded by a required tag member so that the set of valid alternatives varies), patternProperties, additionalProperties, "+
		"schema and tuple items, array schemas wrapped in allOf/anyOf/oneOf, sibling-free local $ref into definitions; the instance is built with the schema, members that have a default are absent 70% of the time), "+
		"20% from the shared grammar gen.Schema(Defaults, no not, no dependencies) with gen.Satisfying; a case is in the domain when the root instance is an object that both the reference evaluator and the library accept. "+
		"Oracle: internal/postmodel (applicable schemas per object present in the data; set of acceptable post-states, one per choice of a valid anyOf alternative); the post-state produced by post.ApplyDefaults must be acceptable: "+
		"present members unchanged up to defaults filled inside them, every absent member for which an applicable schema declares a non-null default holds one of those defaults, nothing else appears. "+
		"Non-trivial = at least one absent member received a default at depth >= 2 (member of an object nested in the root) or from a schema reached through allOf/anyOf/oneOf/$ref/items; distinct by content hash",
		"a sibling-free $ref is transparent: a default declared on the target of a $ref property schema counts as declared for the member",
		"when several anyOf alternatives are valid, any of them may be the selected one (one selection per anyOf node and value); defaults of invalid alternatives never apply",
		"only `default` keywords found directly on a (dereferenced) property schema count; a default that is an object is inserted as it is (objects that were not present in the data receive no defaults of their own)",
		"a case in which the library and the reference evaluator disagree about the validity of the instance or of an anyOf/oneOf alternative (e.g. the library accepts an absent required member that has a default) is excluded: verdict agreement is property C01",
		"default: null is no default (non-null defaults only)")
	ev.Main(m, "C18")
}

type Case struct {
	Schema   string `json:"schema"`
	Instance string `json:"instance"`
	Src      string `json:"src,omitempty"`
}

func genCase(t *rapid.T) Case {
	depth := 3
	if ev.Thorough() {
		depth = 4
	}
	// IntRange(0, 3) is close to uniform (wider ranges favour small values): 3/16 of the cases come from the shared grammar
	if rapid.IntRange(0, 3).Draw(t, "source")*4+rapid.IntRange(0, 3).Draw(t, "source") >= 13 {
		doc := gen.Schema(t, gen.SchemaOpts{MaxDepth: depth, ObjectBias: true, Defaults: true, NoNot: true, NoDeps: true, ScalarEnum: true})
		if _, typed := doc["type"]; !typed {
			doc["type"] = "object" // the property is about object data
		}
		return Case{Schema: gen.Text(doc), Instance: gen.Text(gen.Satisfying(t, doc)), Src: "grammar"}
	}
	doc, inst := postmodel.Gen(t, postmodel.GenOpts{Defaults: true, MaxDepth: depth})
	return Case{Schema: gen.Text(doc), Instance: gen.Text(inst), Src: "constructive"}
}

// libValid asks the library whether value v satisfies sub-schema alt of the document root.
func libValid(root map[string]any, alt any, v any) (valid bool, panicMsg string) {
	am, ok := alt.(map[string]any)
	if !ok {
		return true, ""
	}
	doc := map[string]any{}
	if _, isRef := am["$ref"]; isRef {
		doc["allOf"] = []any{am}
	} else {
		for k, w := range am {
			doc[k] = w
		}
	}
	if defs, ok := root["definitions"]; ok {
		doc["definitions"] = defs
	}
	o := obs.ViaValidator(gen.Text(doc), mustStd(gen.Text(v)), "", registry)
	return o.Valid, o.Panic
}

func mustStd(text string) any {
	v, _ := obs.DecodeStd(text)
	return v
}

func bucket(n int) string {
	switch {
	case n <= 1:
		return fmt.Sprint(n)
	case n <= 3:
		return "2-3"
	default:
		return "4+"
	}
}

func check(c Case) (out ev.Outcome) {
	defer func() {
		if r := recover(); r != nil {
			hook.ResetPools()
			out = ev.Failf("panic: %v [%s]", r, obs.ShortStack(string(debug.Stack())))
		}
	}()
	schemaRaw, err := refmodel.Decode([]byte(c.Schema))
	if err != nil {
		return ev.Failf("harness: schema text does not decode: %v", err)
	}
	instRaw, err := refmodel.Decode([]byte(c.Instance))
	if err != nil {
		return ev.Failf("harness: instance text does not decode: %v", err)
	}
	src := c.Src
	if src == "" {
		src = "replay"
	}
	out.Classes = append(out.Classes, "src:"+src)
	rootSchema, ok := schemaRaw.(map[string]any)
	if !ok {
		out.Excluded = append(out.Excluded, "schema is not an object")
		return out
	}
	if _, ok := instRaw.(map[string]any); !ok {
		out.Excluded = append(out.Excluded, "root instance is not an object")
		return out
	}
	if postmodel.HasKeyword(schemaRaw, "dependencies") {
		out.Excluded = append(out.Excluded, "schema uses dependencies")
		return out
	}
	if !gen.NumbersInDomain(schemaRaw) || !gen.NumbersInDomain(instRaw) {
		out.Excluded = append(out.Excluded, "number outside the C01 domain")
		return out
	}
	formats := reg.Func(registry)
	if !(&refmodel.Evaluator{Root: schemaRaw, Formats: formats}).Valid(schemaRaw, instRaw) {
		out.Excluded = append(out.Excluded, "instance invalid per the reference evaluator")
		return out
	}

	// the library: validate (non-recycling, default options), then apply defaults in place
	sch, err := obs.ParseSchema(c.Schema)
	if err != nil {
		return ev.Failf("harness: %v", err)
	}
	data, _ := obs.DecodeStd(c.Instance)
	var res *validate.Result
	if msg, st := obs.Guard(func() { res = validate.NewSchemaValidator(sch, nil, "", strfmt.Registry(registry)).Validate(data) }); msg != "" {
		hook.ResetPools()
		if gen.DependencyMarshalPanic(msg, schemaRaw) {
			out.Excluded = append(out.Excluded, "schema hits KF-spec-marshal-unescaped-key (claimed under C01/C06)")
			return out
		}
		return ev.Failf("panic while validating: %s [%s]", msg, obs.ShortStack(st))
	}
	if res == nil {
		return ev.Failf("nil result")
	}
	if !res.IsValid() {
		out.Excluded = append(out.Excluded, "library rejects an instance the reference evaluator accepts (a C01 matter)")
		return out
	}
	if msg, st := obs.Guard(func() { post.ApplyDefaults(res) }); msg != "" {
		hook.ResetPools()
		return ev.Failf("panic in ApplyDefaults: %s [%s]", msg, obs.ShortStack(st))
	}
	postText, err := json.Marshal(data)
	if err != nil {
		return ev.Failf("post-state does not marshal: %v", err)
	}
	postRaw, err := refmodel.Decode(postText)
	if err != nil {
		return ev.Failf("harness: post-state does not decode: %v", err)
	}

	// the model
	m := postmodel.New(schemaRaw, formats)
	facts := m.Accept(postmodel.Defaults, instRaw, postRaw)
	var devFacts *postmodel.Facts
	md := postmodel.New(schemaRaw, formats)
	if facts == nil && !m.Overflow && m.Err == nil {
		md.Dev.PropertyRefDefaultIgnored = true
		devFacts = md.Accept(postmodel.Defaults, instRaw, postRaw)
	}
	if m.Err != nil {
		return ev.Failf("harness: model inconsistency: %v", m.Err)
	}
	if m.Overflow || md.Overflow {
		out.Excluded = append(out.Excluded, "more than 64 combinations of anyOf alternatives")
		return out
	}
	// domain guard: the library must agree with the reference evaluator on every alternative the model looked at
	for _, a := range append(append([]postmodel.AltVerdict(nil), m.Alts...), md.Alts...) {
		lv, pm := libValid(rootSchema, a.Alt, a.Value)
		if pm != "" {
			hook.ResetPools()
			out.Excluded = append(out.Excluded, "library panics on an anyOf/oneOf alternative taken alone")
			return out
		}
		if lv != a.Valid {
			out.Excluded = append(out.Excluded, "library and reference evaluator disagree on an anyOf/oneOf alternative (a C01 matter)")
			return out
		}
	}
	out.Classes = append(out.Classes, "in-domain")

	describe := func(f *postmodel.Facts) {
		out.Classes = append(out.Classes, "fills:"+bucket(len(f.Fills)), fmt.Sprintf("object-depth:%d", min(f.MaxDepth, 4)))
		depths, vias := map[int]bool{}, map[string]bool{}
		for _, fl := range f.Fills {
			depths[min(fl.Depth, 4)] = true
			for _, v := range fl.Via.Names() {
				vias[v] = true
			}
			if fl.Depth >= 2 || fl.Via.Composition() {
				out.Nontrivial = true
			}
		}
		for d := range depths {
			out.Classes = append(out.Classes, fmt.Sprintf("fill-depth:%d", d))
		}
		for v := range vias {
			out.Classes = append(out.Classes, "fill-via:"+v)
		}
		sort.Strings(out.Classes)
		if f.Ambiguous > 0 {
			out.Classes = append(out.Classes, "several-valid-anyOf-alternatives")
		}
		if f.MultiDefault > 0 {
			out.Classes = append(out.Classes, "several-distinct-defaults-for-one-member")
		}
		if f.RefDefaults > 0 {
			out.Classes = append(out.Classes, "default-behind-$ref-property")
		}
		if f.Kept > 0 {
			out.Classes = append(out.Classes, "present-members-kept")
		}
		out.Counters = map[string]int64{"fills": int64(len(f.Fills)), "members_kept": int64(f.Kept), "objects": int64(f.Objects)}
	}
	if facts != nil {
		describe(facts)
		return out
	}
	exp := postmodel.New(schemaRaw, formats).Expected(postmodel.Defaults, instRaw)
	if devFacts != nil {
		// exactly the recorded deviation: the post-state is the acceptable one
		// once defaults behind unexpanded $ref property schemas are left out
		if id, ok := ev.KnownOpen(matcherRefDefault); ok {
			out.Known = append(out.Known, id)
			out.Classes = append(out.Classes, "known:"+matcherRefDefault)
			out.Nontrivial = true // the missing default sits behind a $ref
			return out
		}
		out.Fail = fmt.Sprintf("a default declared on the target of a $ref property schema was not applied: after ApplyDefaults the data is %s; acceptable (first choice everywhere): %s", refmodel.Canon(postRaw), refmodel.Canon(exp))
		return out
	}
	out.Fail = fmt.Sprintf("post-state is not acceptable: after ApplyDefaults the data is %s; one acceptable post-state (first valid alternative everywhere): %s", refmodel.Canon(postRaw), refmodel.Canon(exp))
	return out
}

func TestProp(t *testing.T)   { ev.Prop(t, false, genCase, check) }
func TestReplay(t *testing.T) { ev.Replay(t, check) }
func FuzzC18(f *testing.F)    { ev.FuzzProp(f, false, genCase, check) }
