// Package c07 decides property C07: specification validation never panics on
// a document that loads, in both continue-on-errors modes.
package c07

import (
	"fmt"
	"regexp"
	"strings"
	"testing"
	"time"

	"github.com/go-openapi/strfmt"
	"github.com/go-openapi/validate"
	"pgregory.net/rapid"

	"verif/internal/ev"
	"verif/internal/gen"
	"verif/internal/hook"
	"verif/internal/obs"
	"verif/internal/refmodel"
	"verif/internal/specdoc"
)

func TestMain(m *testing.M) {
	ev.Describe("documents: generated specifications (half with hostile names: dots, empty, suffix overlaps, names equal to keywords) and the repository's own small fixtures, altered by 1..4 structural edits "+
		"(delete / retype / null / rename to hostile key / transplant a sub-tree / duplicate an array element / retarget a $ref to nowhere or to the wrong section / give a $ref siblings); documents the loader rejects are counted and dropped. "+
		"Each loaded document is validated with continue-on-errors off and on through NewSpecValidator(...).Validate, and through validate.Spec. Oracle: no panic, no fatal error (the worker process survives), both results non-nil. "+
		"Non-trivial = the document loads, carries at least one edit below the top level and reaches the second pass (no schema-pass error, or continue-on-errors); distinct by content hash",
		"loader panics/errors are not the library's: counted under excluded",
		"documents on which a recorded crasher would fire are avoided by construction and counted (see known_findings.json)",
		"non-termination is observed through a 120 s watchdog per validation (documents of this size take under a second): the one deliberate use of the wall clock, with a margin of more than two orders of magnitude")
	ev.Main(m, "C07")
}

const watchdog = 120 * time.Second

type Case struct {
	Doc    string   `json:"doc"`
	Source string   `json:"source"`
	Edits  []string `json:"edits"`
	Deep   bool     `json:"deep_edit"`
}

func genCase(t *rapid.T) Case {
	doc, src := specdoc.Base(t, true)
	c := Case{Source: src}
	n := rapid.IntRange(1, 4).Draw(t, "nedits")
	for i := 0; i < n; i++ {
		kind, depth, ok := gen.Mutate(t, doc)
		if ok {
			c.Edits = append(c.Edits, kind)
			if depth >= 1 {
				c.Deep = true
			}
		}
	}
	c.Doc = gen.Text(doc)
	return c
}

func check(c Case) (out ev.Outcome) {
	reached := false
	for _, cont := range []bool{false, true} {
		doc, err, pmsg := obs.LoadDoc([]byte(c.Doc))
		if err != nil || pmsg != "" || doc == nil {
			out.Excluded = append(out.Excluded, "document rejected by the loader")
			return out
		}
		if cont {
			if why := specdoc.KnownCrasher(c.Doc); why != "" && knownCrasherOpen() {
				out.Excluded = append(out.Excluded, "avoided known crasher: "+why)
				continue
			}
		}
		var o obs.SpecOutcome
		finished := make(chan struct{})
		go func() {
			defer close(finished)
			o = obs.ValidateSpec(doc, strfmt.Default, cont, nil)
		}()
		select {
		case <-finished:
		case <-time.After(watchdog):
			// Deliberate exception to "no wall-clock oracles": these documents are a few kilobytes and validate in
			// 0.1–0.5 s; the limit is more than two hundred times that, so only a validation that does not terminate
			// (an endless loop was found this way) can reach it. The stuck goroutine is abandoned.
			return ev.Failf("continue-on-errors=%v: spec validation did not return within %s (documents of this size take well under a second)", cont, watchdog)
		}
		if o.Panic != "" {
			hook.ResetPools()
			if id, ok := ev.KnownOpen("ref_into_absent_section_panics_in_expander"); ok && refIntoAbsentSection(c.Doc, o.Panic) {
				out.Known = append(out.Known, id)
				continue
			}
			return ev.Failf("continue-on-errors=%v: spec validation panicked: %s [%s]", cont, o.Panic, obs.ShortStack(o.Stack))
		}
		if o.NilResults {
			return ev.Failf("continue-on-errors=%v: a nil result was returned", cont)
		}
		if cont || o.Valid {
			reached = true
		}
		out.Classes = append(out.Classes, fmt.Sprintf("continue=%v valid=%v", cont, o.Valid))
	}
	// the package-level entry point (default options)
	doc, err, pmsg := obs.LoadDoc([]byte(c.Doc))
	if err == nil && pmsg == "" && doc != nil {
		if msg, st := obs.Guard(func() { _ = validate.Spec(doc, strfmt.Default) }); msg != "" {
			hook.ResetPools()
			if id, ok := ev.KnownOpen("ref_into_absent_section_panics_in_expander"); ok && refIntoAbsentSection(c.Doc, msg) {
				out.Known = append(out.Known, id)
			} else {
				return ev.Failf("validate.Spec panicked: %s [%s]", msg, obs.ShortStack(st))
			}
		}
	}
	out.Classes = append(out.Classes, "source:"+specdoc.SourceClass(c.Source))
	for _, e := range c.Edits {
		out.Classes = append(out.Classes, "edit:"+e)
	}
	out.Nontrivial = c.Deep && reached
	return out
}

func TestProp(t *testing.T)   { ev.Prop(t, true, genCase, check) }
func TestReplay(t *testing.T) { ev.Replay(t, check) }
func FuzzC07(f *testing.F)    { ev.FuzzProp(f, true, genCase, check) }

var reNilSection = regexp.MustCompile(`^value method github\.com/go-openapi/spec\.\w+\.MarshalJSON called using nil \*\w+ pointer`)

// refIntoAbsentSection recognises the recorded finding "a $ref that points into a top-level section the document
// does not have (#/paths without paths, #/info without info) makes the expander of go-openapi/spec marshal a nil
// section pointer, which panics": that very panic text, and such a reference in the document.
func refIntoAbsentSection(docText, panicText string) bool {
	if !reNilSection.MatchString(panicText) {
		return false
	}
	raw, err := refmodel.Decode([]byte(docText))
	top, ok := raw.(map[string]any)
	if err != nil || !ok {
		return false
	}
	found := false
	var walk func(v any)
	walk = func(v any) {
		switch x := v.(type) {
		case map[string]any:
			if r, isStr := x["$ref"].(string); isStr && strings.HasPrefix(r, "#/") {
				section := strings.SplitN(strings.TrimPrefix(r, "#/"), "/", 2)[0]
				if member, present := top[section]; !present || member == nil {
					found = true
				}
			}
			for _, w := range x {
				walk(w)
			}
		case []any:
			for _, w := range x {
				walk(w)
			}
		}
	}
	walk(raw)
	return found
}

// knownCrasherOpen tells whether the recorded crasher is (still) listed as open; the witness
// replay of the driver runs with all matchers off and therefore executes the crashing call.
func knownCrasherOpen() bool {
	_, ok := ev.KnownOpen("circular_composition_stack_overflow")
	return ok
}
