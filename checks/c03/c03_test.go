// Package c03 decides property C03: spec validation enforces exactly the
// documented extra rules — no error on specifications assembled from
// well-formed parts, an error as soon as one rule is broken.
package c03

import (
	"fmt"
	"regexp"
	"strings"
	"testing"

	"github.com/go-openapi/strfmt"
	"github.com/go-openapi/validate"
	"pgregory.net/rapid"

	"verif/internal/ev"
	"verif/internal/gen"
	"verif/internal/hook"
	"verif/internal/obs"
)

func TestMain(m *testing.M) {
	ev.Describe("specifications assembled from a typed grammar (1..3 paths with 0..2 placeholders incl. two in one segment, 1..2 methods each, unique operation ids, path/query/header/formData/body parameters declared inline, at path level or through #/parameters, "+
		"responses inline or through #/responses with headers and schemas, definitions with properties, required, additionalProperties, allOf inheritance and $ref), valid by construction, then 0..2 rule-breaking edits out of 27 kinds "+
		"(plus one control edit that breaks nothing), x continue-on-errors on/off x StrictPathParamUniqueness on/off. Oracle: no edit => no error in any configuration; any breaking edit => at least one error; "+
		"with continue-on-errors every applied edit's documented message class is among the errors; the overlapping-paths edit alone with strict uniqueness off => no error. "+
		"Non-trivial = at least one edit applied, or a valid specification using a shared parameter, a shared response and an allOf chain; distinct by content hash",
		"'valid by construction' is a claim about this grammar; it was calibrated on the unchanged library (every unedited document is accepted in all four configurations)",
		"every document is loaded from its own JSON text (loads.Analyzed), so each validation uses its own copy of the Swagger schema")
	ev.Main(m, "C03")
}

type Case struct {
	Doc    string   `json:"doc"`
	Edits  []string `json:"edits"`
	Rich   bool     `json:"rich"`
	Seeded bool     `json:"-"`
}

func genCase(t *rapid.T) Case {
	rich := rapid.IntRange(0, 3).Draw(t, "rich") > 0
	doc, info := gen.Spec(t, gen.SpecOpts{Rich: rich, CaseTwinParams: true})
	c := Case{Rich: rich && info.UsedSharedParam && info.UsedSharedResp && len(info.AllOfChildren) > 0}
	n := rapid.SampledFrom([]int{0, 1, 1, 1, 2}).Draw(t, "nedits")
	shaped, wroteResponseSchema := false, false
	for i, tries := 0, 0; i < n && tries < 8; tries++ {
		name := gen.PickUniform(t, append([]string{"requiredSatisfiedByAdditionalProperties"}, gen.RuleEdits...), "edit")
		if name == "circularAncestry" && len(c.Edits) > 0 {
			continue
		}
		if pathShape[name] && shaped {
			continue // two edits that both reshape path templates can cancel each other
		}
		if responseSchema[name] && wroteResponseSchema {
			continue // both replace the schema of an operation's first inline response: the second would erase the first
		}
		if name == "missingPaths" && len(c.Edits) > 0 {
			continue // removing all paths would erase what an earlier edit broke
		}
		if gen.ApplyRuleEdit(t, name, doc, info) {
			c.Edits = append(c.Edits, name)
			i++
			shaped = shaped || pathShape[name]
			wroteResponseSchema = wroteResponseSchema || responseSchema[name]
			if name == "circularAncestry" || name == "missingPaths" {
				break
			}
		}
	}
	c.Doc = gen.Text(doc)
	return c
}

var responseSchema = map[string]bool{"schemaArrayNoItems": true, "invalidPatternItems": true}

var pathShape = map[string]bool{"pathParamNotRequired": true, "overlappingPaths3": true, "placeholderRepeatedAdjacent": true, "placeholderRepeatedApart": true, "overlappingPaths": true, "placeholderWithoutParam": true, "pathParamNotInTemplate": true}

func class(format string) *regexp.Regexp {
	q := regexp.QuoteMeta(format)
	for _, verb := range []string{"%q", "%s", "%v", "%d"} {
		q = strings.ReplaceAll(q, verb, "(?s:.*)")
	}
	return regexp.MustCompile("^" + q + "$")
}

// expected maps each breaking edit to the message classes of which at least one must be reported with continue-on-errors.
var expected = map[string][]*regexp.Regexp{
	"dupOperationID":                  {class(validate.NonUniqueOperationIDError)},
	"pathParamNotInTemplate":          {class(validate.PathParamNotInPathError)},
	"placeholderWithoutParam":         {class(validate.NoParameterInPathError)},
	"placeholderRepeatedAdjacent":     {class(validate.PathParamNotUniqueError)},
	"placeholderRepeatedApart":        {class(validate.PathParamNotUniqueError)},
	"pathParamNotRequired":            {class(validate.PathParamRequiredError)},
	"dupParamInline":                  {class(validate.DuplicateParamNameError)},
	"dupParamPathLevel":               {class(validate.DuplicateParamNameError)},
	"dupParamViaShared":               {class(validate.DuplicateParamNameError)},
	"twoBodyParams":                   {class(validate.MultipleBodyParamError)},
	"bodyAndForm":                     {class(validate.BothFormDataAndBodyError)},
	"paramArrayNoItems":               {class(validate.ArrayInParamRequiresItemsError)},
	"paramNestedArrayNoItems":         {class(validate.ArrayInParamRequiresItemsError)},
	"headerArrayNoItems":              {class(validate.ArrayInHeaderRequiresItemsError)},
	"schemaArrayNoItems":              {class(validate.ArrayRequiresItemsError)},
	"requiredUndefined":               {class(validate.RequiredButNotDefinedError)},
	"unresolvableDefinitionRef":       {class(validate.UnresolvedReferencesError), class(validate.CannotResolveReferenceError), class(validate.InvalidReferenceError)},
	"unresolvableParameterRef":        {class(validate.UnresolvedReferencesError), class(validate.CannotResolveReferenceError), class(validate.InvalidReferenceError)},
	"unresolvableResponseRef":         {class(validate.UnresolvedReferencesError), class(validate.CannotResolveReferenceError), class(validate.InvalidReferenceError)},
	"dupInheritedProperty":            {class(validate.DuplicatePropertiesError)},
	"dupInheritedPropertyBesideAllOf": {class(validate.DuplicatePropertiesError)},
	"circularAncestry":                {class(validate.CircularAncestryDefinitionError)},
	"overlappingPaths":                {class(validate.PathOverlapError)},
	"invalidPatternParam":             {class(validate.InvalidPatternInParamError)},
	"invalidPatternHeader":            {class(validate.InvalidPatternInHeaderError)},
	"invalidPatternNonStringParam":    {class(validate.InvalidPatternInParamError)},
	"unresolvableAllOfRef":            {class(validate.UnresolvedReferencesError), class(validate.CannotResolveReferenceError), class(validate.InvalidReferenceError)},
	"invalidPatternSchema":            {class(validate.InvalidPatternInError), class(validate.InvalidPatternError)},
	"invalidPatternItems":             {class(validate.InvalidItemsPatternError)},
	"missingPaths":                    {class(validate.NoValidPathErrorOrWarning)},
	"emptyPlaceholder":                {class(validate.EmptyPathParameterError)},
}

func anyMatch(res []*regexp.Regexp, msgs []string) bool {
	for _, m := range msgs {
		for _, r := range res {
			if r.MatchString(m) {
				return true
			}
		}
	}
	return false
}

func check(c Case) (out ev.Outcome) {
	breaking := 0
	onlyOverlap := len(c.Edits) > 0
	for _, e := range c.Edits {
		if e != "requiredSatisfiedByAdditionalProperties" {
			breaking++
		}
		if e != "overlappingPaths" && e != "overlappingPaths3" && e != "requiredSatisfiedByAdditionalProperties" {
			onlyOverlap = false
		}
		out.Classes = append(out.Classes, "edit:"+e)
	}
	if len(c.Edits) == 0 {
		out.Classes = append(out.Classes, "unedited")
	}
	onlyOverlap = onlyOverlap && breaking > 0
	for _, cont := range []bool{false, true} {
		for _, strict := range []bool{true, false} {
			doc, err, pmsg := obs.LoadDoc([]byte(c.Doc))
			if err != nil || pmsg != "" {
				out.Excluded = append(out.Excluded, "document does not load")
				return out
			}
			o := obs.ValidateSpec(doc, strfmt.Default, cont, func(v *validate.SpecValidator) { v.Options.StrictPathParamUniqueness = strict })
			cfg := fmt.Sprintf("continue-on-errors=%v strict-path-uniqueness=%v", cont, strict)
			if o.Panic != "" {
				hook.ResetPools()
				return ev.Failf("%s: spec validation panicked: %s [%s]", cfg, o.Panic, obs.ShortStack(o.Stack))
			}
			if o.NilResults {
				return ev.Failf("%s: nil result", cfg)
			}
			switch {
			case breaking == 0:
				if !o.Valid {
					return ev.Failf("%s: every documented rule holds (edits %v) but errors are reported: %q", cfg, c.Edits, o.Errors)
				}
			case onlyOverlap && !strict:
				if !o.Valid {
					return ev.Failf("%s: only paths overlap and strict uniqueness is off, but errors are reported: %q", cfg, o.Errors)
				}
			default:
				if o.Valid {
					return ev.Failf("%s: rule-breaking edits %v were applied but no error is reported", cfg, c.Edits)
				}
				if cont {
					// when references do not resolve, the checks that need resolved schemas (defaults, examples, and the
					// pattern checks that live in that pass) are not run: then only the reference edits must show their message
					unresolved := false
					for _, e := range c.Edits {
						unresolved = unresolved || strings.HasPrefix(e, "unresolvable")
					}
					for _, e := range c.Edits {
						exp, isBreaking := expected[e]
						if !isBreaking {
							continue
						}
						if unresolved && !strings.HasPrefix(e, "unresolvable") {
							continue
						}
						if (e == "overlappingPaths" || e == "overlappingPaths3") && !strict {
							continue
						}
						if !anyMatch(exp, o.Errors) {
							return ev.Failf("%s: edit %q was applied but its documented message is not among the errors %q", cfg, e, o.Errors)
						}
					}
				}
			}
		}
	}
	out.Nontrivial = len(c.Edits) > 0 || c.Rich
	return out
}

func TestProp(t *testing.T)   { ev.Prop(t, true, genCase, check) }
func TestReplay(t *testing.T) { ev.Replay(t, check) }
