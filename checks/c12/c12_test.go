// Package c12 decides property C12: validation treats its inputs as
// read-only (instance; reference-free schema; parameter / header definitions;
// loaded documents are handled by the document part of this package).
package c12

import (
	"encoding/json"
	"fmt"
	"reflect"
	"testing"

	"github.com/go-openapi/spec"
	"github.com/go-openapi/validate"
	"pgregory.net/rapid"

	"verif/internal/ev"
	"verif/internal/gen"
	"verif/internal/hook"
	"verif/internal/obs"
	"verif/internal/refmodel"
	"verif/internal/reg"
)

var registry = reg.New()

func TestMain(m *testing.M) {
	ev.Describe("schema part: (schema, instance) pairs of the C01 grammar (three quarters reference-free, with defaults on properties so that the defaulting bookkeeping runs), through AgainstSchema and through validator objects with and without recycling; "+
		"simple part: parameter / header definitions x JSON-decoded values; document part: generated and fixture specifications through validate.Spec in both continue-on-errors modes. "+
		"Oracle: deep snapshot before = after: the instance against an independently decoded pristine copy (reflect.DeepEqual); a reference-free schema against a pristine re-parsed copy (reflect.DeepEqual) and by its JSON rendering; "+
		"parameter and header definitions likewise; for documents doc.Raw() bytes and, for accepted documents without self-referential definitions, the JSON rendering of doc.Spec(). "+
		"Non-trivial = instance with at least one container and schema with at least one property carrying a default or a subschema (schema part), array definitions with items (simple part), document with a shared parameter and a $ref (document part); distinct by content hash",
		"schemas containing $ref are expanded in place by design: for them only the instance is compared (counted as class schema-has-ref)")
	ev.Main(m, "C12")
}

type Case struct {
	Kind     string `json:"kind"` // schema | param | header | doc
	Def      string `json:"def"`
	Value    string `json:"value"`
	Entry    string `json:"entry"` // against | validator | recycling
	Continue bool   `json:"continue_on_errors,omitempty"`
	// Programmatic: the parsed schema is put in the form a schema assembled in Go code has (see unsetAllows)
	Programmatic bool `json:"programmatic,omitempty"`
	// NumberInstance: the numbers of the instance are json.Number values
	NumberInstance bool `json:"number_instance,omitempty"`
}

func genCase(t *rapid.T) Case {
	c := Case{Kind: rapid.SampledFrom(kindsPool()).Draw(t, "kind")}
	// documents cost about 0.3 s each (four orders of magnitude more than the other kinds): about one case in 32
	isDoc := true
	for i := 0; i < 5; i++ {
		isDoc = rapid.Bool().Draw(t, "docbit") && isDoc
	}
	if isDoc {
		c.Kind = "doc"
	}
	switch c.Kind {
	case "schema":
		// expressions that do not compile are beyond C01's domain, not beyond the statement ("never modifies a schema that contains no references")
		o := gen.SchemaOpts{MaxDepth: 3, Formats: reg.Names, Defaults: true, ObjectBias: rapid.Bool().Draw(t, "objbias"), BadPatterns: rapid.Bool().Draw(t, "badpatterns")}
		if rapid.IntRange(0, 3).Draw(t, "withref") > 0 {
			o.NoRef = true
		}
		doc := gen.Schema(t, o)
		c.Def = gen.Text(doc)
		c.Value = gen.Text(gen.InstanceFor(t, doc, 14))
		c.Entry = rapid.SampledFrom([]string{"against", "validator", "recycling"}).Draw(t, "entry")
		c.Programmatic = gen.UniformIndex(t, 4, "programmatic") == 0
		c.NumberInstance = gen.UniformIndex(t, 3, "numberinstance") == 0
	case "param", "header":
		d := gen.SimpleDef(t, 3)
		if c.Kind == "param" {
			d["name"] = "p"
			d["in"] = rapid.SampledFrom([]string{"query", "header", "path", "formData"}).Draw(t, "in")
		}
		if rapid.Bool().Draw(t, "withdefault") {
			d["default"] = gen.SimpleValue(t, d, 0)
		}
		c.Def = gen.Text(d)
		c.Value = gen.Text(gen.SimpleValue(t, d, 0))
		c.Entry = rapid.SampledFrom([]string{"validator", "recycling"}).Draw(t, "entry")
	case "doc":
		genDoc(t, &c)
	}
	return c
}

func hasRef(v any) bool {
	switch x := v.(type) {
	case map[string]any:
		if _, ok := x["$ref"]; ok {
			return true
		}
		for _, w := range x {
			if hasRef(w) {
				return true
			}
		}
	case []any:
		for _, w := range x {
			if hasRef(w) {
				return true
			}
		}
	}
	return false
}

func hasContainer(v any) bool {
	switch v.(type) {
	case map[string]any, []any:
		return true
	}
	return false
}

func schemaRich(v any) bool {
	m, ok := v.(map[string]any)
	if !ok {
		return false
	}
	if props, ok := m["properties"].(map[string]any); ok && len(props) > 0 {
		return true
	}
	for _, k := range []string{"items", "allOf", "anyOf", "oneOf", "additionalProperties", "patternProperties"} {
		if _, ok := m[k]; ok {
			return true
		}
	}
	return false
}

func opts(entry string) []validate.Option {
	if entry == "recycling" {
		return []validate.Option{validate.WithRecycleValidators(true)}
	}
	return nil
}

func check(c Case) (out ev.Outcome) {
	switch c.Kind {
	case "schema":
		return checkSchema(c)
	case "param", "header":
		return checkSimple(c)
	case "doc":
		return checkDoc(c)
	}
	return ev.Failf("harness: unknown kind %q", c.Kind)
}

func checkSchema(c Case) (out ev.Outcome) {
	raw, err := refmodel.Decode([]byte(c.Def))
	if err != nil {
		return ev.Failf("harness: %v", err)
	}
	used, err1 := obs.ParseSchema(c.Def)
	pristine, err2 := obs.ParseSchema(c.Def)
	if err1 != nil || err2 != nil {
		return ev.Failf("harness: schema does not parse: %v %v", err1, err2)
	}
	if c.Programmatic {
		// the form a schema assembled in Go code often has: additionalProperties / additionalItems given as a schema
		// with the Allows flag left unset (the JSON decoder always sets it)
		unsetAllows(used)
		unsetAllows(pristine)
		out.Classes = append(out.Classes, "schema-assembled-in-code")
	}
	if !reflect.DeepEqual(used, pristine) {
		return ev.Failf("harness: two parses of the same schema text differ")
	}
	before, _ := json.Marshal(used)
	data, _ := obs.DecodeStd(c.Value)
	dataPristine, _ := obs.DecodeStd(c.Value)
	if c.NumberInstance {
		// the instance as a decoder with UseNumber hands it over: numbers are json.Number
		data, _ = obs.DecodeNumber(c.Value)
		dataPristine, _ = obs.DecodeNumber(c.Value)
		out.Classes = append(out.Classes, "instance-with-json.Number")
	}
	msg, st := obs.Guard(func() {
		if c.Entry == "against" {
			_ = validate.AgainstSchema(used, data, registry)
			return
		}
		_ = validate.NewSchemaValidator(used, nil, "", registry, opts(c.Entry)...).Validate(data)
	})
	if msg != "" {
		hook.ResetPools()
		if gen.DependencyMarshalPanic(msg, raw) {
			out.Excluded = append(out.Excluded, "schema hits KF-spec-marshal-unescaped-key (claimed under C01/C06)")
			return out
		}
		out.Excluded = append(out.Excluded, "validation panics (a C06 matter)")
		_ = st
		return out
	}
	ref := hasRef(raw)
	out.Classes = append(out.Classes, "kind:schema", "entry:"+c.Entry, fmt.Sprintf("schema-has-ref:%v", ref))
	if !reflect.DeepEqual(data, dataPristine) {
		after, _ := json.Marshal(data)
		return ev.Failf("the instance was modified by validation: before %s, after %s", c.Value, after)
	}
	if !ref {
		after, _ := json.Marshal(used)
		if string(before) != string(after) {
			return ev.Failf("the reference-free schema was modified by validation: JSON before %s, after %s", before, after)
		}
		if !reflect.DeepEqual(used, pristine) {
			return ev.Failf("the reference-free schema was modified by validation (reflect.DeepEqual against a pristine parse fails; JSON rendering unchanged: %s)", after)
		}
	}
	inst, _ := refmodel.Decode([]byte(c.Value))
	out.Nontrivial = hasContainer(inst) && schemaRich(raw)
	return out
}

// unsetAllows clears SchemaOrBool.Allows wherever a schema is given, at every depth.
func unsetAllows(s *spec.Schema) {
	if s == nil {
		return
	}
	for _, sob := range []*spec.SchemaOrBool{s.AdditionalProperties, s.AdditionalItems} {
		if sob != nil && sob.Schema != nil {
			sob.Allows = false
			unsetAllows(sob.Schema)
		}
	}
	inMap := func(m map[string]spec.Schema) {
		for k, v := range m {
			unsetAllows(&v)
			m[k] = v
		}
	}
	inMap(s.Properties)
	inMap(s.PatternProperties)
	inMap(s.Definitions)
	for _, l := range [][]spec.Schema{s.AllOf, s.AnyOf, s.OneOf} {
		for i := range l {
			unsetAllows(&l[i])
		}
	}
	unsetAllows(s.Not)
	if s.Items != nil {
		unsetAllows(s.Items.Schema)
		for i := range s.Items.Schemas {
			unsetAllows(&s.Items.Schemas[i])
		}
	}
	for k, d := range s.Dependencies {
		if d.Schema != nil {
			unsetAllows(d.Schema)
			s.Dependencies[k] = d
		}
	}
}

func checkSimple(c Case) (out ev.Outcome) {
	data, _ := obs.DecodeStd(c.Value)
	dataPristine, _ := obs.DecodeStd(c.Value)
	var msg string
	var changed string
	if c.Kind == "param" {
		used, pristine := new(spec.Parameter), new(spec.Parameter)
		if err := json.Unmarshal([]byte(c.Def), used); err != nil {
			return ev.Failf("harness: %v", err)
		}
		_ = json.Unmarshal([]byte(c.Def), pristine)
		msg, _ = obs.Guard(func() { _ = validate.NewParamValidator(used, registry, opts(c.Entry)...).Validate(data) })
		if !reflect.DeepEqual(used, pristine) {
			after, _ := json.Marshal(used)
			changed = fmt.Sprintf("the parameter definition was modified: before %s, after %s", c.Def, after)
		}
	} else {
		used, pristine := new(spec.Header), new(spec.Header)
		if err := json.Unmarshal([]byte(c.Def), used); err != nil {
			return ev.Failf("harness: %v", err)
		}
		_ = json.Unmarshal([]byte(c.Def), pristine)
		msg, _ = obs.Guard(func() { _ = validate.NewHeaderValidator("X-H", used, registry, opts(c.Entry)...).Validate(data) })
		if !reflect.DeepEqual(used, pristine) {
			after, _ := json.Marshal(used)
			changed = fmt.Sprintf("the header definition was modified: before %s, after %s", c.Def, after)
		}
	}
	if msg != "" {
		hook.ResetPools()
		out.Excluded = append(out.Excluded, "validation panics (a C06/C16 matter)")
		return out
	}
	if changed != "" {
		return ev.Failf("%s", changed)
	}
	if !reflect.DeepEqual(data, dataPristine) {
		after, _ := json.Marshal(data)
		return ev.Failf("the value was modified by validation: before %s, after %s", c.Value, after)
	}
	out.Classes = append(out.Classes, "kind:"+c.Kind, "entry:"+c.Entry)
	def, _ := refmodel.Decode([]byte(c.Def))
	if m, ok := def.(map[string]any); ok {
		_, hasItems := m["items"]
		out.Nontrivial = hasItems
	}
	return out
}

func TestProp(t *testing.T)   { ev.Prop(t, false, genCase, check) }
func TestReplay(t *testing.T) { ev.Replay(t, check) }
func FuzzC12(f *testing.F)    { ev.FuzzProp(f, false, genCase, check) }
