package c12

import (
	"pgregory.net/rapid"

	"verif/internal/ev"
)

// The document part is added once the specification generator exists.
func kindsPool() []string { return []string{"schema", "schema", "param", "header"} }

func genDoc(t *rapid.T, c *Case) {}

func checkDoc(c Case) ev.Outcome { return ev.Outcome{} }
