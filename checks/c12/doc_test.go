package c12

import (
	"bytes"
	"encoding/json"
	"fmt"
	"strings"

	"github.com/go-openapi/strfmt"
	"pgregory.net/rapid"

	"verif/internal/ev"
	"verif/internal/gen"
	"verif/internal/hook"
	"verif/internal/obs"
	"verif/internal/refmodel"
	"verif/internal/specdoc"
)

func kindsPool() []string { return []string{"schema", "schema", "schema", "param", "header"} }

func genDoc(t *rapid.T, c *Case) {
	doc, src := specdoc.Base(t, false)
	if defs, ok := doc["definitions"].(map[string]any); ok && rapid.IntRange(0, 2).Draw(t, "reqvia") == 0 {
		// a required name that is only declared by the definition its additionalProperties refers to
		defs["ReqTarget"] = map[string]any{"type": "object", "properties": map[string]any{"viaName": map[string]any{"type": "string"}}}
		defs["ReqVia"] = map[string]any{"type": "object", "required": []any{"zeta", "viaName", "alpha"}, "properties": map[string]any{"zeta": map[string]any{"type": "string"}, "alpha": map[string]any{"type": "string"}},
			"additionalProperties": map[string]any{"$ref": "#/definitions/ReqTarget"}}
	}
	n := rapid.SampledFrom([]int{0, 0, 1, 2}).Draw(t, "nmut")
	for i := 0; i < n; i++ {
		gen.Mutate(t, doc)
	}
	c.Def = gen.Text(doc)
	c.Value = src
	c.Continue = rapid.Bool().Draw(t, "continue")
	c.Entry = "spec"
}

// selfReferential tells whether some definition reaches itself through $ref.
func selfReferential(doc map[string]any) bool {
	defs, _ := doc["definitions"].(map[string]any)
	var refsOf func(v any, acc map[string]bool)
	refsOf = func(v any, acc map[string]bool) {
		switch x := v.(type) {
		case map[string]any:
			if r, ok := x["$ref"].(string); ok && strings.HasPrefix(r, "#/definitions/") {
				acc[strings.TrimPrefix(r, "#/definitions/")] = true
			}
			for _, w := range x {
				refsOf(w, acc)
			}
		case []any:
			for _, w := range x {
				refsOf(w, acc)
			}
		}
	}
	edges := map[string]map[string]bool{}
	for name, d := range defs {
		acc := map[string]bool{}
		refsOf(d, acc)
		edges[name] = acc
	}
	state := map[string]int{}
	var visit func(n string) bool
	visit = func(n string) bool {
		switch state[n] {
		case 1:
			return true
		case 2:
			return false
		}
		state[n] = 1
		for m := range edges[n] {
			if visit(m) {
				return true
			}
		}
		state[n] = 2
		return false
	}
	for n := range edges {
		if visit(n) {
			return true
		}
	}
	return false
}

func checkDoc(c Case) (out ev.Outcome) {
	if c.Continue && specdoc.KnownCrasher(c.Def) != "" {
		out.Excluded = append(out.Excluded, "avoided known crasher (claimed under C07)")
		return out
	}
	doc, err, pmsg := obs.LoadDoc([]byte(c.Def))
	if err != nil || pmsg != "" || doc == nil {
		out.Excluded = append(out.Excluded, "document rejected by the loader")
		return out
	}
	rawBefore := append([]byte(nil), doc.Raw()...)
	specBefore, err := json.Marshal(doc.Spec())
	if err != nil {
		out.Excluded = append(out.Excluded, "parsed specification does not marshal")
		return out
	}
	o := obs.ValidateSpec(doc, strfmt.Default, c.Continue, nil)
	if o.Panic != "" {
		hook.ResetPools()
		out.Excluded = append(out.Excluded, "spec validation panics (a C07 matter)")
		return out
	}
	if !bytes.Equal(rawBefore, doc.Raw()) {
		return ev.Failf("validating the specification changed the bytes of the loaded document")
	}
	tree, _ := refmodel.Decode([]byte(c.Def))
	m, _ := tree.(map[string]any)
	selfRef := m != nil && selfReferential(m)
	out.Classes = append(out.Classes, "kind:doc", fmt.Sprintf("accepted:%v", o.Valid), fmt.Sprintf("self-referential-definitions:%v", selfRef), "source:"+specdoc.SourceClass(c.Value))
	if o.Valid && !selfRef {
		specAfter, err := json.Marshal(doc.Spec())
		if err != nil || !bytes.Equal(specBefore, specAfter) {
			i := 0
			for i < len(specBefore) && i < len(specAfter) && specBefore[i] == specAfter[i] {
				i++
			}
			lo := i - 300
			if lo < 0 {
				lo = 0
			}
			hi := func(b []byte) int {
				if i+300 < len(b) {
					return i + 300
				}
				return len(b)
			}
			return ev.Failf("validating an accepted specification without self-referential definitions changed the parsed specification (JSON of doc.Spec(), first difference at byte %d): before …%s…, after …%s…", i, specBefore[lo:hi(specBefore)], specAfter[lo:hi(specAfter)])
		}
	}
	out.Nontrivial = strings.Contains(c.Def, `"$ref":"#/parameters/`) && strings.Contains(c.Def, `"$ref":"#/definitions/`)
	return out
}

func trunc(b []byte) string {
	if len(b) > 1500 {
		return string(b[:1500]) + "…"
	}
	return string(b)
}
