// Package c09 decides property C09: spec validation judges defaults and
// examples exactly as their own schema judges them — a default its schema
// rejects is an error, an example its schema rejects is a warning, and values
// their schema accepts raise no such report.
package c09

import (
	"encoding/json"
	"fmt"
	"regexp"
	"sort"
	"strconv"
	"strings"
	"testing"

	"github.com/go-openapi/strfmt"
	"pgregory.net/rapid"

	"verif/internal/ev"
	"verif/internal/gen"
	"verif/internal/hook"
	"verif/internal/obs"
	"verif/internal/refmodel"
	"verif/internal/reg"
)

func TestMain(m *testing.M) {
	ev.Describe("valid generated specifications decorated with defaults and examples at every location the Swagger 2.0 schema allows: definition schemas and, inside them, properties, items, tuple items, additionalProperties, allOf members, "+
		"schemas reached through $ref; body-parameter and response schemas likewise; simple parameters and their items; headers and their items; schema examples; per-media-type response examples. Member, parameter and definition names come from an adversarial pool "+
		"(x inside x, a.a, default, items ...). Each value is drawn inside its schema or perturbed to lie outside; three profiles: all inside, exactly one outside, several outside. "+
		"Oracle: the expected verdict of every decorated value comes from the draft-4 reference evaluator on the location's own schema (a value is used only if the library's direct validation of (schema, value) agrees with the model); "+
		"the undecorated document gives the baseline: all inside => no error and no new warning; a default outside => the document is invalid; an example outside => a new warning and, if no default is outside, still valid. "+
		"Non-trivial = at least one decorated location at depth >= 2 or in a parameter/header item; distinct by content hash",
		"decorated schemas are reference-free below the decorated node except for one level of $ref to a reference-free definition, so the location's schema can be evaluated on its own",
		"the open finding about the visited-path heuristic is replicated exactly (same path construction and suffix rule) so that other misses are still reported")
	ev.Main(m, "C09")
}

// A Deco is one decorated location.
type Deco struct {
	Where   string `json:"where"`   // human-readable location
	Kind    string `json:"kind"`    // default | example | response-example
	Schema  string `json:"schema"`  // the location's own schema (references inlined), JSON
	Value   string `json:"value"`   // JSON
	Depth   int    `json:"depth"`   // nesting depth below the root schema of the site
	Skipped bool   `json:"skipped"` // the library's visited-path heuristic skips this location (replica)
	Simple  bool   `json:"simple"`  // parameter / header / items location
}

type Case struct {
	Doc      string `json:"doc"`
	Base     string `json:"base"` // the same document without decorations
	Decos    []Deco `json:"decos"`
	Continue bool   `json:"continue_on_errors"`
}

var names = []string{"x", "x", "a", "b", "x.x", "a.a", "default", "example", "items", "é", "list", "k", "", "v1.", "a."}

type builder struct {
	t      *rapid.T
	decos  []Deco
	budget int // how many values may still be placed outside
	site   string
}

// leaf draws a scalar schema.
func (b *builder) leaf() map[string]any {
	switch rapid.IntRange(0, 5).Draw(b.t, "leaf") {
	case 5:
		// bounds equal to zero: a copy of the schema that loses zero-valued keywords loses these
		return map[string]any{"type": "integer", "minimum": gen.Number(-rapid.IntRange(0, 3).Draw(b.t, "negmin")), "maximum": gen.Number(0)}
	case 0:
		return map[string]any{"type": "integer", "minimum": gen.Number(rapid.IntRange(0, 3).Draw(b.t, "min")), "maximum": gen.Number(rapid.IntRange(5, 9).Draw(b.t, "max"))}
	case 1:
		return map[string]any{"type": "string", "enum": []any{"red", "green"}}
	case 2:
		return map[string]any{"type": "boolean"}
	case 3:
		return map[string]any{"type": "string", "minLength": gen.Number(2), "pattern": "^a"}
	default:
		return map[string]any{"type": "number", "multipleOf": json.Number("0.5")}
	}
}

// inline resolves the single level of $ref this generator uses.
func inline(s map[string]any, leafDef map[string]any) map[string]any {
	if _, ok := s["$ref"]; ok {
		return leafDef
	}
	return s
}

// value draws a value for schema s, inside or outside.
func (b *builder) value(s map[string]any, outside bool) any {
	v := gen.Satisfying(b.t, s)
	if s["type"] == "integer" && rapid.IntRange(0, 1).Draw(b.t, "onbound") == 0 {
		// a value sitting exactly on a bound: inside or outside depending on the exclusive flags (the model decides)
		if rapid.Bool().Draw(b.t, "whichbound") {
			if mn, ok := s["minimum"]; ok {
				return mn
			}
		} else if mx, ok := s["maximum"]; ok {
			return mx
		}
	}
	if !outside {
		return v
	}
	// make it violate the schema for sure: a kind no generated schema of this check accepts, or a violating scalar
	switch t, _ := s["type"].(string); t {
	case "integer":
		return gen.Number(100)
	case "number":
		return json.Number("0.25")
	case "string":
		return "zzz-not-allowed"
	case "boolean":
		return "not-a-boolean"
	case "array":
		// an array whose innermost element violates the items (the shape on which nested items validators matter)
		if it, ok := s["items"].(map[string]any); ok {
			return []any{b.value(it, true)}
		}
		return "not-an-array"
	default:
		return gen.Number(7) // objects (and allOf of objects) reject a number
	}
}

func (b *builder) decorate(where string, s, resolved map[string]any, libPath string, depth int, skipped, simple bool, kinds []string) {
	if rapid.IntRange(0, 2).Draw(b.t, "decorate?") != 0 {
		return
	}
	kind := rapid.SampledFrom(kinds).Draw(b.t, "decokind")
	outside := b.budget > 0 && rapid.IntRange(0, 2).Draw(b.t, "outside?") == 0
	if outside {
		b.budget--
	}
	v := b.value(resolved, outside)
	s[kind] = v
	b.decos = append(b.decos, Deco{Where: where, Kind: kind, Schema: gen.Text(stripDecos(resolved)), Value: gen.Text(v), Depth: depth, Skipped: skipped, Simple: simple})
	_ = libPath
}

func stripDecos(v any) any {
	switch x := v.(type) {
	case map[string]any:
		out := map[string]any{}
		for k, w := range x {
			if k == "default" || k == "example" {
				if _, isSchemaProps := x["type"]; isSchemaProps || x["properties"] != nil || x["allOf"] != nil {
					continue
				}
			}
			out[k] = stripDecos(w)
		}
		return out
	case []any:
		out := make([]any, len(x))
		for i, w := range x {
			out[i] = stripDecos(w)
		}
		return out
	}
	return v
}

// visitedReplica replicates default_validator.go isVisited: exact repeats and the suffix-overlap heuristic.
type visitedReplica struct{ seen map[string]bool }

func (v *visitedReplica) skip(path string) bool {
	if v.seen[path] {
		return true
	}
	for i := len(path) - 2; i >= 0; i-- {
		if path[i] != '.' {
			continue
		}
		parent, suffix := path[:i], path[i+1:]
		if strings.HasSuffix(parent, suffix) {
			return true
		}
	}
	return false
}

// tree draws a schema tree below path (the library's path for the default traversal is pathD, for the example traversal pathE).
func (b *builder) tree(depth int, where, pathD, pathE string, vd, ve *visitedReplica, skippedD, skippedE bool, leafDef map[string]any, level int) map[string]any {
	// the library marks the node visited before looking at default / example
	skippedD = skippedD || vd.skip(pathD)
	skippedE = skippedE || ve.skip(pathE)
	vd.seen[pathD], ve.seen[pathE] = true, true
	var s map[string]any
	kindsAllowed := []string{"default", "example"}
	if depth <= 0 {
		if rapid.IntRange(0, 4).Draw(b.t, "useref") == 0 {
			s = map[string]any{"$ref": "#/definitions/DecoLeaf"}
			return s // a $ref has no siblings: nothing to decorate here
		}
		s = b.leaf()
	} else {
		switch rapid.IntRange(0, 5).Draw(b.t, "node") {
		case 0, 1:
			props := map[string]any{}
			n := rapid.IntRange(1, 3).Draw(b.t, "nprops")
			for i := 0; i < n; i++ {
				nm := gen.PickUniform(b.t, names, "pname")
				if _, dup := props[nm]; dup {
					continue
				}
				props[nm] = b.tree(depth-1, where+".properties["+nm+"]", pathD+"."+nm, pathE+"."+nm, vd, ve, skippedD, skippedE, leafDef, level+1)
			}
			s = map[string]any{"type": "object", "properties": props}
			if rapid.IntRange(0, 3).Draw(b.t, "addl") == 0 {
				s["additionalProperties"] = b.tree(depth-1, where+".additionalProperties", pathD+".additionalProperties", pathE+".additionalProperties", vd, ve, skippedD, skippedE, leafDef, level+1)
			}
		case 2:
			s = map[string]any{"type": "array", "items": b.tree(depth-1, where+".items", pathD+".items.default", pathE+".items.example", vd, ve, skippedD, skippedE, leafDef, level+1)}
		case 3:
			n := rapid.IntRange(1, 2).Draw(b.t, "ntuple")
			var items []any
			for i := 0; i < n; i++ {
				items = append(items, b.tree(depth-1, fmt.Sprintf("%s.items[%d]", where, i), fmt.Sprintf("%s.items[%d].default", pathD, i), fmt.Sprintf("%s.items[%d].example", pathE, i), vd, ve, skippedD, skippedE, leafDef, level+1))
			}
			s = map[string]any{"type": "array", "items": items}
		case 4:
			n := rapid.IntRange(1, 2).Draw(b.t, "nallof")
			var members []any
			for i := 0; i < n; i++ {
				// each member is an object with its own, distinct property (no duplicate inherited properties);
				// the library's traversal path of the member is <path>.allOf[i], of its property <path>.allOf[i].m<i>
				pn := "m" + strconv.Itoa(i)
				mpD, mpE := fmt.Sprintf("%s.allOf[%d]", pathD, i), fmt.Sprintf("%s.allOf[%d]", pathE, i)
				skD, skE := skippedD || vd.skip(mpD), skippedE || ve.skip(mpE)
				vd.seen[mpD], ve.seen[mpE] = true, true
				sub := b.tree(depth-1, fmt.Sprintf("%s.allOf[%d].properties[%s]", where, i, pn), mpD+"."+pn, mpE+"."+pn, vd, ve, skD, skE, leafDef, level+2)
				members = append(members, map[string]any{"type": "object", "properties": map[string]any{pn: sub}})
			}
			s = map[string]any{"allOf": members}
		default:
			s = b.leaf()
		}
	}
	resolved := resolveTree(s, leafDef)
	for _, kind := range kindsAllowed {
		sk := skippedD
		if kind == "example" {
			sk = skippedE
		}
		b.decorate(where, s, resolved, pathD, level, sk, false, []string{kind})
	}
	return s
}

// resolveTree inlines the $ref to DecoLeaf everywhere below s.
func resolveTree(v any, leafDef map[string]any) map[string]any {
	var walk func(v any) any
	walk = func(v any) any {
		switch x := v.(type) {
		case map[string]any:
			if _, ok := x["$ref"]; ok {
				return gen.Clone(leafDef)
			}
			out := map[string]any{}
			for k, w := range x {
				out[k] = walk(w)
			}
			return out
		case []any:
			out := make([]any, len(x))
			for i, w := range x {
				out[i] = walk(w)
			}
			return out
		}
		return v
	}
	m, _ := walk(v).(map[string]any)
	return m
}

func genCase(t *rapid.T) Case {
	doc, info := gen.Spec(t, gen.SpecOpts{MaxPaths: 2})
	base := gen.Clone(doc).(map[string]any)
	b := &builder{t: t}
	switch rapid.IntRange(0, 2).Draw(t, "profile") {
	case 0:
		b.budget = 0
	case 1:
		b.budget = 1
	default:
		b.budget = 3
	}
	leafDef := map[string]any{"type": "integer", "minimum": gen.Number(1), "maximum": gen.Number(3)}
	add := func(d map[string]any) {
		defs, _ := d["definitions"].(map[string]any)
		defs["DecoLeaf"] = gen.Clone(leafDef)
	}
	add(doc)
	add(base)
	depth := rapid.IntRange(1, 3).Draw(t, "treedepth")

	// site A: a definition (the default validator resets its visited set once before all definitions)
	nd := rapid.IntRange(1, 2).Draw(t, "ndecodefs")
	vd, ve := &visitedReplica{map[string]bool{}}, &visitedReplica{map[string]bool{}}
	for i := 0; i < nd; i++ {
		name := rapid.SampledFrom([]string{"Deco", "x", "x.x", "a.a", "Pet.x"}).Draw(t, "decodefname") + strconv.Itoa(i)
		p := "definitions." + name
		before := len(b.decos)
		tree := b.tree(depth, p, p, p, vd, ve, false, false, leafDef, 0)
		doc["definitions"].(map[string]any)[name] = tree
		base["definitions"].(map[string]any)[name] = stripDecos(gen.Clone(tree))
		_ = before
	}
	// site B: response schema + response examples, on the first operation with an inline 200 response
	if len(info.Ops) > 0 {
		oi := info.Ops[0]
		for _, d := range []map[string]any{doc, base} {
			op := d["paths"].(map[string]any)[oi.Path].(map[string]any)[oi.Method].(map[string]any)
			resps := op["responses"].(map[string]any)
			resps["200"] = map[string]any{"description": "decorated"}
		}
		vd2, ve2 := &visitedReplica{map[string]bool{}}, &visitedReplica{map[string]bool{}}
		tree := b.tree(depth, "response 200 schema of "+oi.ID, "200", "200", vd2, ve2, false, false, leafDef, 0)
		set := func(d map[string]any, tr any) map[string]any {
			op := d["paths"].(map[string]any)[oi.Path].(map[string]any)[oi.Method].(map[string]any)
			r := op["responses"].(map[string]any)["200"].(map[string]any)
			r["schema"] = tr
			return r
		}
		r := set(doc, tree)
		set(base, stripDecos(gen.Clone(tree)))
		if rapid.IntRange(0, 1).Draw(t, "respexamples") == 0 {
			resolved := resolveTree(tree, leafDef)
			outside := b.budget > 0 && rapid.IntRange(0, 2).Draw(t, "respexoutside") == 0
			if outside {
				b.budget--
			}
			v := b.value(resolved, outside)
			r["examples"] = map[string]any{"application/json": v}
			b.decos = append(b.decos, Deco{Where: "response 200 examples[application/json] of " + oi.ID, Kind: "response-example", Schema: gen.Text(stripDecos(resolved)), Value: gen.Text(v), Depth: 0})
		}
		// site B2: the 200 response schema of a second operation, which gets no extra parameters or headers
		// (the traversal state left by one response must not hide the schema of the next)
		second := -1
		for j := 1; j < len(info.Ops); j++ {
			if info.Ops[j].Path == oi.Path && info.Ops[j].Method == oi.Method {
				continue
			}
			if second < 0 {
				second = j
			}
			if len(info.Placeholders[info.Ops[j].Path]) == 0 {
				second = j // an operation that can do without any parameter: preferred, see below
				break
			}
		}
		if second > 0 {
			o2 := info.Ops[second]
			if len(info.Placeholders[o2.Path]) == 0 && rapid.Bool().Draw(t, "bareoperation") {
				// no parameter at all: nothing then stands between the responses of two operations in the traversal
				for _, d := range []map[string]any{doc, base} {
					delete(d["paths"].(map[string]any)[o2.Path].(map[string]any)[o2.Method].(map[string]any), "parameters")
				}
			}
			vd3, ve3 := &visitedReplica{map[string]bool{}}, &visitedReplica{map[string]bool{}}
			tree2 := b.tree(depth, "response 200 schema of "+o2.ID, "200", "200", vd3, ve3, false, false, leafDef, 0)
			for _, pair := range []struct {
				d  map[string]any
				tr any
			}{{doc, tree2}, {base, stripDecos(gen.Clone(tree2))}} {
				op := pair.d["paths"].(map[string]any)[o2.Path].(map[string]any)[o2.Method].(map[string]any)
				op["responses"].(map[string]any)["200"] = map[string]any{"description": "decorated too", "schema": pair.tr}
			}
		}
		// site D: the schema of a body parameter, on an operation that has no payload parameter yet (the library
		// reaches it through its parameter helper, which resolves and copies the parameter first)
		for _, bo := range info.Ops {
			if bo.HasBody || bo.HasForm {
				continue
			}
			vd4, ve4 := &visitedReplica{map[string]bool{}}, &visitedReplica{map[string]bool{}}
			tree4 := b.tree(depth, "schema of body parameter decoBody of "+bo.ID, "decoBody", "decoBody", vd4, ve4, false, false, leafDef, 0)
			for _, pair := range []struct {
				d  map[string]any
				tr any
			}{{doc, tree4}, {base, stripDecos(gen.Clone(tree4))}} {
				op := pair.d["paths"].(map[string]any)[bo.Path].(map[string]any)[bo.Method].(map[string]any)
				ps, _ := op["parameters"].([]any)
				op["parameters"] = append(ps, map[string]any{"name": "decoBody", "in": "body", "schema": pair.tr})
			}
			break
		}
		// site C: simple parameter with default, array parameter with items default, header with default
		for _, d := range []map[string]any{doc, base} {
			op := d["paths"].(map[string]any)[oi.Path].(map[string]any)[oi.Method].(map[string]any)
			ps, _ := op["parameters"].([]any)
			nested := func() map[string]any {
				return map[string]any{"type": "array", "items": map[string]any{"type": "array", "items": map[string]any{"type": "string", "enum": []any{"red", "green"}}}}
			}
			n1 := nested()
			n1["name"], n1["in"] = "decoArr2", "query"
			ps = append(ps, n1, map[string]any{"name": "decoQ", "in": "query", "type": "integer", "minimum": gen.Number(1), "maximum": gen.Number(5)},
				map[string]any{"name": "decoArr", "in": "query", "type": "array", "items": map[string]any{"type": "string", "enum": []any{"red", "green"}}})
			op["parameters"] = ps
			r := op["responses"].(map[string]any)["200"].(map[string]any)
			r["headers"] = map[string]any{"X-Deco": map[string]any{"type": "integer", "minimum": gen.Number(1), "maximum": gen.Number(5)},
				"X-DecoArr":  map[string]any{"type": "array", "items": map[string]any{"type": "string", "enum": []any{"red", "green"}}},
				"X-DecoArr2": nested()}
		}
		// one-sided exclusive bounds on the numeric parameter and header (the same in both documents)
		exQ, exH := rapid.IntRange(0, 2).Draw(t, "exclusiveQ"), rapid.IntRange(0, 2).Draw(t, "exclusiveH")
		for _, d := range []map[string]any{doc, base} {
			op := d["paths"].(map[string]any)[oi.Path].(map[string]any)[oi.Method].(map[string]any)
			ps := op["parameters"].([]any)
			q := ps[len(ps)-2].(map[string]any)
			h := op["responses"].(map[string]any)["200"].(map[string]any)["headers"].(map[string]any)["X-Deco"].(map[string]any)
			for _, pair := range []struct {
				m  map[string]any
				ex int
			}{{q, exQ}, {h, exH}} {
				switch pair.ex {
				case 1:
					pair.m["exclusiveMinimum"] = true
				case 2:
					pair.m["exclusiveMaximum"] = true
				}
			}
		}
		op := doc["paths"].(map[string]any)[oi.Path].(map[string]any)[oi.Method].(map[string]any)
		ps := op["parameters"].([]any)
		arr2 := ps[len(ps)-3].(map[string]any)
		q := ps[len(ps)-2].(map[string]any)
		arr := ps[len(ps)-1].(map[string]any)
		hs := op["responses"].(map[string]any)["200"].(map[string]any)["headers"].(map[string]any)
		simple := func(where string, holder map[string]any, schema map[string]any, depth int) {
			if rapid.IntRange(0, 1).Draw(t, "simpledeco?") != 0 {
				return
			}
			outside := b.budget > 0 && rapid.IntRange(0, 2).Draw(t, "simpleoutside") == 0
			if outside {
				b.budget--
			}
			clean := map[string]any{}
			for k, v := range schema {
				if k != "name" && k != "in" && k != "default" {
					clean[k] = v
				}
			}
			v := b.value(clean, outside)
			holder["default"] = v
			b.decos = append(b.decos, Deco{Where: where, Kind: "default", Schema: gen.Text(clean), Value: gen.Text(v), Depth: depth, Simple: true})
		}
		simple("parameter decoQ", q, q, 0)
		simple("items of parameter decoArr", arr["items"].(map[string]any), arr["items"].(map[string]any), 1)
		// a default on the array itself: its elements (and, for arrays of arrays, the innermost elements) must satisfy the items
		simple("parameter decoArr (whole array)", arr, arr, 1)
		simple("parameter decoArr2 (array of arrays)", arr2, arr2, 2)
		simple("header X-DecoArr2 (array of arrays)", hs["X-DecoArr2"].(map[string]any), hs["X-DecoArr2"].(map[string]any), 2)
		simple("header X-Deco", hs["X-Deco"].(map[string]any), hs["X-Deco"].(map[string]any), 0)
		simple("items of header X-DecoArr", hs["X-DecoArr"].(map[string]any)["items"].(map[string]any), hs["X-DecoArr"].(map[string]any)["items"].(map[string]any), 1)
	}
	return Case{Doc: gen.Text(doc), Base: gen.Text(base), Decos: b.decos, Continue: rapid.Bool().Draw(t, "continue")}
}

func validateText(text string, cont bool) (obs.SpecOutcome, bool) {
	doc, err, pmsg := obs.LoadDoc([]byte(text))
	if err != nil || pmsg != "" || doc == nil {
		return obs.SpecOutcome{}, false
	}
	return obs.ValidateSpec(doc, strfmt.Default, cont, nil), true
}

func check(c Case) (out ev.Outcome) {
	// ground truth per decoration, and the agreement filter
	type judged struct {
		Deco
		inside bool
	}
	var js []judged
	for _, d := range c.Decos {
		sraw, err1 := refmodel.Decode([]byte(d.Schema))
		vraw, err2 := refmodel.Decode([]byte(d.Value))
		if err1 != nil || err2 != nil {
			return ev.Failf("harness: decoration does not decode")
		}
		inside := (&refmodel.Evaluator{Root: sraw, Formats: reg.Func(strfmt.Default)}).Valid(sraw, vraw)
		data, _ := obs.DecodeStd(d.Value)
		lib := obs.Against(d.Schema, data, strfmt.Default)
		if lib.Panic != "" || lib.Valid != inside {
			hook.ResetPools()
			out.Excluded = append(out.Excluded, "library and model disagree on (schema, value) itself (a C01/C16 matter)")
			return out
		}
		js = append(js, judged{d, inside})
	}
	baseO, ok := validateText(c.Base, c.Continue)
	if !ok {
		out.Excluded = append(out.Excluded, "base document does not load")
		return out
	}
	if baseO.Panic != "" {
		hook.ResetPools()
		out.Excluded = append(out.Excluded, "base document panics (a C07 matter)")
		return out
	}
	if !baseO.Valid {
		return ev.Failf("harness/grammar: the undecorated document is not accepted: %q", baseO.Errors)
	}
	o, ok := validateText(c.Doc, c.Continue)
	if !ok {
		out.Excluded = append(out.Excluded, "decorated document does not load")
		return out
	}
	if o.Panic != "" {
		hook.ResetPools()
		return ev.Failf("decorated document panics: %s [%s]", o.Panic, obs.ShortStack(o.Stack))
	}
	baseW := map[string]bool{}
	for _, w := range baseO.Warnings {
		baseW[w] = true
	}
	var newW []string
	for _, w := range o.Warnings {
		if !baseW[w] {
			newW = append(newW, w)
		}
	}
	var badDefaults, badExamples, skippedBad []judged
	deep := false
	for _, j := range js {
		if j.Depth >= 2 || (j.Simple && j.Depth >= 1) {
			deep = true
		}
		if j.inside {
			continue
		}
		switch {
		case j.Skipped:
			skippedBad = append(skippedBad, j)
		case j.Kind == "default":
			badDefaults = append(badDefaults, j)
		default:
			badExamples = append(badExamples, j)
		}
	}
	heuristicOpen := false
	var heuristicID string
	if id, ok := ev.KnownOpen("visited_path_suffix_heuristic"); ok {
		heuristicOpen, heuristicID = true, id
	}
	if !heuristicOpen {
		// judge skipped locations like any other
		for _, j := range skippedBad {
			if j.Kind == "default" {
				badDefaults = append(badDefaults, j)
			} else {
				badExamples = append(badExamples, j)
			}
		}
		skippedBad = nil
	}
	describe := func(l []judged) string {
		var s []string
		for _, j := range l {
			s = append(s, fmt.Sprintf("%s %s=%s (schema %s)", j.Where, j.Kind, j.Value, j.Schema))
		}
		sort.Strings(s)
		return strings.Join(s, "; ")
	}
	switch {
	case len(badDefaults) > 0:
		if o.Valid {
			return ev.Failf("defaults outside their schema are not reported as errors: %s (continue-on-errors=%v)", describe(badDefaults), c.Continue)
		}
		// the examples are judged whatever the defaults are like, in either mode: the statement makes no exception.
		// When stopping early the library never reaches the values if an earlier pass reports an error; the base
		// document passes those, and decorations only trip them in the region of the recorded pre-check finding
		// (a value object with a member named items), so outside it the errors come from the defaults themselves.
		reachesValues := c.Continue
		if !reachesValues {
			doc, err := refmodel.Decode([]byte(c.Doc))
			reachesValues = err == nil && !hasItemsInValue(doc)
		}
		if reachesValues && len(badExamples) > 0 && len(newW) == 0 {
			return ev.Failf("examples outside their schema raise no warning (beside defaults reported as errors, continue-on-errors=%v): %s", c.Continue, describe(badExamples))
		}
	default:
		if !o.Valid {
			if id, ok := ev.KnownOpen("precheck_on_value_of_member_named_default"); ok && precheckRegion(c, o.Errors) {
				out.Known = append(out.Known, id)
				return out
			}
			return ev.Failf("no default lies outside its schema (examples outside: %s; skipped by the recorded heuristic: %s) but errors are reported: %q", describe(badExamples), describe(skippedBad), o.Errors)
		}
		if len(badExamples) > 0 && len(newW) == 0 {
			return ev.Failf("examples outside their schema raise no warning: %s", describe(badExamples))
		}
		if len(badExamples) == 0 && len(newW) > 0 {
			// skipped-but-bad locations may legitimately be reported by a tree on which the heuristic does not fire; anything else is a spurious report
			if len(skippedBad) == 0 {
				return ev.Failf("every decorated value is accepted by its schema but new warnings are raised: %q", newW)
			}
		}
	}
	if len(skippedBad) > 0 {
		out.Known = append(out.Known, heuristicID)
	}
	out.Classes = append(out.Classes, fmt.Sprintf("decos:%d", min(len(js), 6)), fmt.Sprintf("bad-defaults:%d", min(len(badDefaults), 3)), fmt.Sprintf("bad-examples:%d", min(len(badExamples), 3)), fmt.Sprintf("continue:%v", c.Continue))
	for _, j := range js {
		out.Classes = append(out.Classes, "kind:"+j.Kind)
		if j.Simple {
			out.Classes = append(out.Classes, "simple-location")
		}
	}
	out.Nontrivial = deep && len(js) > 0
	return out
}

var rePrecheck = regexp.MustCompile(`^(.*\.(default\.default|example\.example|default\.example|example\.default)) in body must be of type array$|^type in (.*\.(default\.default|example\.example|default\.example|example\.default)) is required$|^".*" must validate (at least one schema \(anyOf\)|one and only one schema \(oneOf\).*|all the schemas \(allOf\).*)$`)

// precheckRegion identifies the recorded finding "the Swagger-schema pass applies its
// items/type structural rule to the default (or example) VALUE of a schema member that is itself
// named default or example": every reported error is the structural complaint at a path ending in
// default.default (etc.) or a composition wrapper of it, and the document does contain a value
// object with a member named items under a member named default/example.
func precheckRegion(c Case, errs []string) bool {
	if len(errs) == 0 {
		return false
	}
	structural := false
	for _, e := range errs {
		m := rePrecheck.FindStringSubmatch(e)
		if m == nil {
			return false
		}
		if m[1] != "" || m[3] != "" {
			structural = true
		}
	}
	if !structural {
		return false
	}
	doc, err := refmodel.Decode([]byte(c.Doc))
	return err == nil && hasItemsInValue(doc)
}

// hasItemsInValue: some member named default / example holds an object with a member named items.
func hasItemsInValue(v any) bool {
	switch x := v.(type) {
	case map[string]any:
		for k, w := range x {
			if k == "default" || k == "example" {
				if m, ok := w.(map[string]any); ok {
					if _, has := m["items"]; has {
						return true
					}
				}
			}
			if hasItemsInValue(w) {
				return true
			}
		}
	case []any:
		for _, w := range x {
			if hasItemsInValue(w) {
				return true
			}
		}
	}
	return false
}

func TestProp(t *testing.T)   { ev.Prop(t, true, genCase, check) }
func TestReplay(t *testing.T) { ev.Replay(t, check) }
