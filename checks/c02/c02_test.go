// Package c02 decides property C02: whenever spec validation reports no error
// for a loaded document, the raw document is valid against the official
// Swagger 2.0 JSON schema under draft-4 semantics.
package c02

import (
	"fmt"
	"os"
	"testing"

	"github.com/go-openapi/strfmt"
	"pgregory.net/rapid"

	"verif/internal/ev"
	"verif/internal/gen"
	"verif/internal/hook"
	"verif/internal/obs"
	"verif/internal/refmodel"
	"verif/internal/reg"
	"verif/internal/specdoc"
)

var (
	swaggerSchema any
	remotes       map[string]any
)

func mustLoad(path string) any {
	b, err := os.ReadFile(path)
	if err != nil {
		fmt.Printf("ORACLE-BROKEN: cannot read %s: %v\n", path, err)
		os.Exit(3)
	}
	v, err := refmodel.Decode(b)
	if err != nil {
		fmt.Printf("ORACLE-BROKEN: cannot decode %s: %v\n", path, err)
		os.Exit(3)
	}
	return v
}

func TestMain(m *testing.M) {
	root := os.Getenv("VERIF_ROOT")
	if root == "" {
		root = "/verif"
	}
	swaggerSchema = mustLoad(root + "/testdata/swagger-2.0-schema.json")
	draft04 := mustLoad(root + "/testdata/jsonschema-draft-04.json")
	remotes = map[string]any{"http://json-schema.org/draft-04/schema": draft04}
	// calibration of the evaluator (same as C01) and of this set-up: the petstore fixture must be schema-valid
	n, _, mism := refmodel.Calibrate("/repo/fixtures/jsonschema_suite", reg.Func(strfmt.Default))
	if len(mism) > 0 || n < 250 {
		fmt.Printf("ORACLE-BROKEN: reference model disagrees with the JSON-Schema-Test-Suite: %v\n", mism)
		os.Exit(3)
	}
	if b, err := os.ReadFile("/repo/fixtures/petstore/swagger.json"); err == nil {
		// the petstore fixture carries "id" members in its definitions, which the Swagger schema forbids
		// (additionalProperties: false): strictly invalid, valid once the library's recorded special case
		// for members named id / $schema is replicated
		if v, err := refmodel.Decode(b); err == nil && (schemaValid(v, refmodel.Deviations{}) || !schemaValid(v, refmodel.Deviations{AdditionalPropertiesIgnoresIDAndSchema: true})) {
			fmt.Println("ORACLE-BROKEN: the petstore fixture is not judged as expected against the Swagger 2.0 schema by the reference model")
			os.Exit(3)
		}
	}
	ev.Describe("documents: generated specifications and the repository's small fixtures, unedited (controls) or altered by 1..4 structural edits (delete / retype / null / rename / transplant / duplicate / retarget or decorate a $ref / hostile names); "+
		"each loaded document is validated with continue-on-errors off and on. Oracle (one direction, as stated): if the library reports no error, the raw JSON of the document (doc.Raw()) must be valid against the official Swagger 2.0 schema "+
		"(its references into draft-04 resolved against the draft-04 meta-schema) per the independent draft-4 reference evaluator, using the same format registry. "+
		"Non-trivial = the document loads, differs from its base by at least one edit below the top level and is schema-invalid per the model (the direction under test); unedited and schema-valid documents are controls; distinct by content hash",
		"the Swagger 2.0 schema file (copied verbatim from go-openapi/spec v0.21.0, testdata/) is trusted as the statement of 'structurally valid'",
		"the reference evaluator is calibrated at start-up against the JSON-Schema-Test-Suite and on the petstore fixture (strictly schema-invalid because of its id members, valid under the recorded id/$schema special case)")
	ev.Main(m, "C02")
}

func schemaValid(raw any, dev refmodel.Deviations) bool {
	e := &refmodel.Evaluator{Root: swaggerSchema, Formats: reg.Func(strfmt.Default), Remotes: remotes, Dev: dev}
	return e.Valid(swaggerSchema, raw)
}

type Case struct {
	Doc    string   `json:"doc"`
	Source string   `json:"source"`
	Edits  []string `json:"edits"`
	Deep   bool     `json:"deep_edit"`
}

func genCase(t *rapid.T) Case {
	doc, src := specdoc.Base(t, false)
	c := Case{Source: src}
	n := rapid.SampledFrom([]int{0, 1, 1, 2, 3, 4}).Draw(t, "nedits")
	for i := 0; i < n; i++ {
		kind, depth, ok := gen.Mutate(t, doc)
		if ok {
			c.Edits = append(c.Edits, kind)
			if depth >= 1 {
				c.Deep = true
			}
		}
	}
	c.Doc = gen.Text(doc)
	return c
}

func check(c Case) (out ev.Outcome) {
	var strict, known bool
	var knownIDs []string
	first := true
	for _, cont := range []bool{false, true} {
		doc, err, pmsg := obs.LoadDoc([]byte(c.Doc))
		if err != nil || pmsg != "" || doc == nil {
			out.Excluded = append(out.Excluded, "document rejected by the loader")
			return out
		}
		if first {
			raw, err := refmodel.Decode(doc.Raw())
			if err != nil {
				return ev.Failf("harness: doc.Raw() does not decode: %v", err)
			}
			strict = schemaValid(raw, refmodel.Deviations{})
			if !strict {
				// would the recorded (open) deviations of the library explain an acceptance?
				var dev refmodel.Deviations
				if id, ok := ev.KnownOpen("null_skips_composition"); ok {
					dev.NullSkipsComposition = true
					knownIDs = append(knownIDs, id)
				}
				if id, ok := ev.KnownOpen("addlprops_id_schema"); ok {
					dev.AdditionalPropertiesIgnoresIDAndSchema = true
					knownIDs = append(knownIDs, id)
				}
				known = len(knownIDs) > 0 && schemaValid(raw, dev)
			}
			first = false
		}
		if cont && specdoc.KnownCrasher(c.Doc) != "" {
			out.Excluded = append(out.Excluded, "avoided known crasher (claimed under C07)")
			continue
		}
		o := obs.ValidateSpec(doc, strfmt.Default, cont, nil)
		if o.Panic != "" {
			hook.ResetPools()
			out.Excluded = append(out.Excluded, "spec validation panics (a C07 matter)")
			return out
		}
		out.Classes = append(out.Classes, fmt.Sprintf("schema-valid:%v accepted:%v continue:%v", strict, o.Valid, cont))
		if o.Valid && !strict {
			if known {
				out.Known = knownIDs
				continue
			}
			return ev.Failf("continue-on-errors=%v: the library reports no error, but the raw document violates the Swagger 2.0 schema (edits %v, source %s)", cont, c.Edits, c.Source)
		}
	}
	out.Classes = append(out.Classes, "source:"+specdoc.SourceClass(c.Source), fmt.Sprintf("edits:%d", len(c.Edits)))
	out.Nontrivial = c.Deep && !strict
	return out
}

func TestProp(t *testing.T)   { ev.Prop(t, true, genCase, check) }
func TestReplay(t *testing.T) { ev.Replay(t, check) }
