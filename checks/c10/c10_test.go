// Package c10 decides property C10: spec validation is deterministic,
// monotone (stop-early errors are a subset of continue-on-errors errors) and
// keeps warnings apart.
package c10

import (
	"encoding/json"
	"fmt"
	"regexp"
	"sort"
	"strings"
	"testing"

	"github.com/go-openapi/strfmt"
	"github.com/go-openapi/validate"
	"gopkg.in/yaml.v3"
	"pgregory.net/rapid"

	"verif/internal/ev"
	"verif/internal/gen"
	"verif/internal/hook"
	"verif/internal/obs"
	"verif/internal/specdoc"
)

func TestMain(m *testing.M) {
	ev.Describe("documents: generated specifications that are valid, broken by one rule, or broken by several independent rule-breaking edits in different definitions / operations (the shape on which map iteration order matters), "+
		"plus structurally edited generated documents and fixtures; each is loaded afresh and validated R times (quick 3, thorough 8) in both continue-on-errors modes and from three renderings (JSON with sorted keys, JSON with reversed key order, YAML). "+
		"Metamorphic oracle: (a) the sets of error and of warning messages are identical across repetitions and renderings (circular-ancestry messages compared after erasing which member of the cycle is named); "+
		"(a') one loaded document validated three times in a row without re-loading it (same mode twice, then the other mode), and one validator object validating another document first, report what a freshly loaded copy and a fresh validator report; "+
		"(b) every stop-early error is also reported with continue-on-errors; (c) IsValid() <=> no errors, so warnings alone never invalidate; (d) the separately returned warnings are exactly the warnings attached to the main result. "+
		"Non-trivial = at least two independently broken places or at least one warning, and at least two renderings validated; distinct by content hash",
		"process-to-process determinism is exercised by the driver's shards (separate processes, separate map seeds) only in so far as each shard repeats its own documents",
		"documents on which the recorded process-killing finding would fire are not validated with continue-on-errors (counted)")
	ev.Main(m, "C10")
}

type Case struct {
	Doc    string   `json:"doc"`
	Source string   `json:"source"`
	Edits  []string `json:"edits"`
	// Prior, when set, is another document that one and the same SpecValidator validates first
	// ("after any other validations"): the validator then validates Doc and must report what a fresh one reports.
	Prior string `json:"prior,omitempty"`
}

// independent rule edits that land in different places of a document
var independent = []string{"dupOperationID", "pathParamNotInTemplate", "dupParamInline", "twoBodyParams", "bodyAndForm", "headerArrayNoItems", "schemaArrayNoItems",
	"requiredUndefined", "requiredUndefined", "dupInheritedProperty", "dupInheritedPropertyBesideAllOf", "invalidPatternParam", "invalidPatternHeader", "invalidPatternSchema", "invalidPatternItems", "emptyPlaceholder", "overlappingPaths", "overlappingPaths3", "overlappingPaths3",
	"placeholderRepeatedApart", "circularAncestry", "unresolvableDefinitionRef", "unresolvableFileRefs", "unresolvableFileRefs"}

func genCase(t *rapid.T) Case {
	var c Case
	switch rapid.IntRange(0, 4).Draw(t, "dockind") {
	case 0:
		doc, src := specdoc.Base(t, false)
		n := rapid.IntRange(1, 3).Draw(t, "nmut")
		for i := 0; i < n; i++ {
			if kind, _, ok := gen.Mutate(t, doc); ok {
				c.Edits = append(c.Edits, "mutate:"+kind)
			}
		}
		c.Doc, c.Source = gen.Text(doc), src
	default:
		doc, info := gen.Spec(t, gen.SpecOpts{Rich: rapid.Bool().Draw(t, "rich")})
		// several definitions with a broken 'required', the shape where iteration order decides what is reported
		n := rapid.SampledFrom([]int{0, 1, 2, 2, 3, 4}).Draw(t, "nedits")
		for i, tries := 0, 0; i < n && tries < 10; tries++ {
			name := rapid.SampledFrom(independent).Draw(t, "edit")
			if gen.ApplyRuleEdit(t, name, doc, info) {
				c.Edits = append(c.Edits, name)
				i++
			}
		}
		if rapid.IntRange(0, 2).Draw(t, "casetwins") == 0 {
			// two offending definitions whose names differ only by case (an order that compares names
			// case-insensitively leaves their relative order to map iteration)
			defs, _ := doc["definitions"].(map[string]any)
			for _, n := range gen.SortedKeys(defs) {
				d, _ := defs[n].(map[string]any)
				twin := strings.ToLower(n)
				if _, isAllOf := d["allOf"]; isAllOf || twin == n || defs[twin] != nil {
					continue
				}
				for _, name := range []string{n, twin} {
					c2 := gen.Clone(d).(map[string]any)
					delete(c2, "additionalProperties")
					req, _ := c2["required"].([]any)
					c2["required"] = append(req, "ghostOf"+name)
					defs[name] = c2
				}
				c.Edits = append(c.Edits, "requiredUndefined", "requiredUndefined(case twin)")
				break
			}
		}
		if gen.UniformIndex(t, 3, "responsedefaults") == 0 && len(info.Ops) >= 2 {
			// several operations answer with the same status code and a schema of their own whose default is right
			// for some and wrong for others; operations that can do without parameters may lose them all: what the
			// traversal of one response leaves behind must not decide whether the next one is looked at
			for _, oi := range info.Ops {
				op := doc["paths"].(map[string]any)[oi.Path].(map[string]any)[oi.Method].(map[string]any)
				var dflt any = gen.Number(3)
				if rapid.Bool().Draw(t, "baddefault") {
					dflt = "not a number"
				}
				op["responses"].(map[string]any)["200"] = map[string]any{"description": "with a default", "schema": map[string]any{"type": "integer", "default": dflt}}
				if len(info.Placeholders[oi.Path]) == 0 && rapid.Bool().Draw(t, "bareoperation") {
					delete(op, "parameters")
				}
			}
			c.Edits = append(c.Edits, "response-defaults")
		}
		if rapid.Bool().Draw(t, "unusedthings") {
			// warnings: an unused definition / parameter / response
			defs, _ := doc["definitions"].(map[string]any)
			if defs != nil {
				defs["UnusedThing"] = map[string]any{"type": "object"}
			}
		}
		c.Doc, c.Source = gen.Text(doc), "generated"
		if rapid.IntRange(0, 2).Draw(t, "withprior") == 0 {
			prior, pinfo := gen.Spec(t, gen.SpecOpts{MaxPaths: 2})
			for _, e := range []string{"dupParamInline", "twoBodyParams", "dupOperationID"} {
				if rapid.Bool().Draw(t, "prioredit:"+e) {
					gen.ApplyRuleEdit(t, e, prior, pinfo)
				}
			}
			c.Prior = gen.Text(prior)
		}
	}
	return c
}

var reCircular = regexp.MustCompile(`^definition ".*" has circular ancestry: .*$`)

func normalise(msgs []string) []string {
	seen := map[string]bool{}
	var out []string
	for _, m := range msgs {
		if reCircular.MatchString(m) {
			m = "definition <member of a cycle> has circular ancestry"
		}
		if !seen[m] {
			seen[m] = true
			out = append(out, m)
		}
	}
	sort.Strings(out)
	return out
}

// two message classes quote whichever unresolvable reference the expander of go-openapi/spec met first
var reFirstFound = regexp.MustCompile(`(?s)^(some references could not be resolved in spec\. First found: |could not resolve reference in .* to \$ref [^:]*: ).*$`)

// eraseFirstFound erases which unresolvable reference the expander reports as "first found".
func eraseFirstFound(msgs []string) []string {
	var out []string
	seen := map[string]bool{}
	for _, m := range msgs {
		e := reFirstFound.ReplaceAllString(m, "$1<one of the unresolvable references>")
		if !seen[e] {
			seen[e] = true
			out = append(out, e)
		}
	}
	sort.Strings(out)
	return out
}

func subset(a, b []string) (string, bool) {
	in := map[string]bool{}
	for _, x := range b {
		in[x] = true
	}
	for _, x := range a {
		if !in[x] {
			return x, false
		}
	}
	return "", true
}

// renderings of one decoded document
func reversedJSON(v any, sb *strings.Builder) {
	switch x := v.(type) {
	case map[string]any:
		keys := gen.SortedKeys(x)
		sb.WriteByte('{')
		for i := len(keys) - 1; i >= 0; i-- {
			kb, _ := json.Marshal(keys[i])
			sb.Write(kb)
			sb.WriteByte(':')
			reversedJSON(x[keys[i]], sb)
			if i > 0 {
				sb.WriteByte(',')
			}
		}
		sb.WriteByte('}')
	case []any:
		sb.WriteByte('[')
		for i, e := range x {
			if i > 0 {
				sb.WriteByte(',')
			}
			reversedJSON(e, sb)
		}
		sb.WriteByte(']')
	default:
		sb.WriteString(gen.Text(x))
	}
}

func yamlable(v any) any {
	switch x := v.(type) {
	case map[string]any:
		out := map[string]any{}
		for k, w := range x {
			out[k] = yamlable(w)
		}
		return out
	case []any:
		out := make([]any, len(x))
		for i, w := range x {
			out[i] = yamlable(w)
		}
		return out
	case json.Number:
		if i, err := x.Int64(); err == nil {
			return i
		}
		f, _ := x.Float64()
		return f
	}
	return v
}

func renderings(docText string) map[string][]byte {
	out := map[string][]byte{"json": []byte(docText)}
	d := json.NewDecoder(strings.NewReader(docText))
	d.UseNumber()
	var tree any
	if d.Decode(&tree) != nil {
		return out
	}
	var sb strings.Builder
	reversedJSON(tree, &sb)
	out["json-reversed-keys"] = []byte(sb.String())
	if y, err := yaml.Marshal(yamlable(tree)); err == nil {
		out["yaml"] = y
	}
	return out
}

func check(c Case) (out ev.Outcome) {
	reps := 3
	if ev.Thorough() {
		reps = 8
	}
	crasher := specdoc.KnownCrasher(c.Doc) != ""
	rs := renderings(c.Doc)
	names := []string{"json", "json-reversed-keys", "yaml"}
	type obsv struct{ errs, warns []string }
	ref := map[bool]*obsv{}
	knownHit := map[string]bool{}
	refFrom := map[bool]string{}
	loaded := 0
	for _, rn := range names {
		text, ok := rs[rn]
		if !ok {
			continue
		}
		okThis := true
		for _, cont := range []bool{false, true} {
			if cont && crasher {
				out.Excluded = append(out.Excluded, "avoided known crasher (claimed under C07)")
				continue
			}
			n := reps
			if rn != "json" {
				n = 1 // the other renderings are validated once per mode
			}
			for r := 0; r < n; r++ {
				doc, err, pmsg := obs.LoadDoc(text)
				if err != nil || pmsg != "" || doc == nil {
					okThis = false
					break
				}
				o := obs.ValidateSpec(doc, strfmt.Default, cont, nil)
				where := fmt.Sprintf("rendering %s, continue-on-errors=%v, repetition %d", rn, cont, r)
				if o.Panic != "" {
					hook.ResetPools()
					out.Excluded = append(out.Excluded, "spec validation panics (a C07 matter)")
					return out
				}
				// (c)
				if o.Valid != (len(o.Errors) == 0) {
					return ev.Failf("%s: IsValid()=%v with %d errors and %d warnings", where, o.Valid, len(o.Errors), len(o.Warnings))
				}
				// (d)
				if strings.Join(o.Warnings, "\x00") != strings.Join(o.WarningsResultErrors, "\x00") {
					return ev.Failf("%s: the separately returned warnings %q differ from the warnings attached to the main result %q", where, o.WarningsResultErrors, o.Warnings)
				}
				cur := &obsv{normalise(o.Errors), normalise(o.Warnings)}
				if prev, seen := ref[cont]; seen {
					// (a)
					if strings.Join(prev.errs, "\x00") != strings.Join(cur.errs, "\x00") {
						if id, ok := ev.KnownOpen("unresolved_refs_first_found_order"); ok && strings.Join(eraseFirstFound(prev.errs), "\x00") == strings.Join(eraseFirstFound(cur.errs), "\x00") {
							// the two sets differ only in which of several unresolvable references the expander met first
							knownHit[id] = true
							continue
						}
						return ev.Failf("%s: the set of errors differs from the one obtained at %s: now %q, before %q", where, refFrom[cont], cur.errs, prev.errs)
					}
					if strings.Join(prev.warns, "\x00") != strings.Join(cur.warns, "\x00") {
						return ev.Failf("%s: the set of warnings differs from the one obtained at %s: now %q, before %q", where, refFrom[cont], cur.warns, prev.warns)
					}
				} else {
					ref[cont], refFrom[cont] = cur, where
				}
			}
			if !okThis {
				break
			}
		}
		if okThis {
			loaded++
		} else if rn == "json" {
			out.Excluded = append(out.Excluded, "document rejected by the loader")
			return out
		}
	}
	// the same loaded document validated again, without loading it anew: whatever an earlier validation did to the
	// parsed document must not show in a later one
	if text, ok := rs["json"]; ok && !crasher {
		for _, first := range []bool{false, true} {
			doc, err, pmsg := obs.LoadDoc(text)
			if err != nil || pmsg != "" || doc == nil {
				break
			}
			for i, cont := range []bool{first, first, !first} {
				want := ref[cont]
				if want == nil {
					break
				}
				o := obs.ValidateSpec(doc, strfmt.Default, cont, nil)
				if o.Panic != "" {
					hook.ResetPools()
					out.Excluded = append(out.Excluded, "re-validating a loaded document panics (a C07 matter)")
					break
				}
				ge, gw, we := normalise(o.Errors), normalise(o.Warnings), want.errs
				if strings.Join(ge, "\x00") != strings.Join(we, "\x00") {
					if id, ok := ev.KnownOpen("unresolved_refs_first_found_order"); ok && strings.Join(eraseFirstFound(ge), "\x00") == strings.Join(eraseFirstFound(we), "\x00") {
						knownHit[id] = true
						ge, we = eraseFirstFound(ge), eraseFirstFound(we)
					}
				}
				if strings.Join(ge, "\x00") != strings.Join(we, "\x00") || strings.Join(gw, "\x00") != strings.Join(want.warns, "\x00") {
					return ev.Failf("validation %d of one loaded document (continue-on-errors=%v, first validated with %v) reports errors %q warnings %q; a freshly loaded copy gives errors %q warnings %q", i+1, cont, first, ge, gw, want.errs, want.warns)
				}
				if i > 0 {
					out.Classes = append(out.Classes, "loaded-document-validated-again")
				}
			}
		}
	}
	// one validator object, two documents in a row
	if c.Prior != "" && !crasher {
		for _, cont := range []bool{false, true} {
			want := ref[cont]
			pd, err1, p1 := obs.LoadDoc([]byte(c.Prior))
			cd, err2, p2 := obs.LoadDoc([]byte(c.Doc))
			if want == nil || err1 != nil || err2 != nil || p1 != "" || p2 != "" || pd == nil || cd == nil || specdoc.KnownCrasher(c.Prior) != "" {
				continue
			}
			var got obs.Outcome
			msg, _ := obs.Guard(func() {
				v := validate.NewSpecValidator(pd.Schema(), strfmt.Default)
				v.SetContinueOnErrors(cont)
				v.Validate(pd)
				errs, _ := v.Validate(cd)
				got = obs.FromResult(errs)
			})
			if msg != "" {
				hook.ResetPools()
				out.Excluded = append(out.Excluded, "re-using a validator panics (a C07 matter)")
				continue
			}
			ge, gw := normalise(got.Errors), normalise(got.Warnings)
			if len(knownHit) > 0 {
				ge = eraseFirstFound(ge)
			}
			we := want.errs
			if len(knownHit) > 0 {
				we = eraseFirstFound(we)
			}
			if strings.Join(ge, "\x00") != strings.Join(we, "\x00") || strings.Join(gw, "\x00") != strings.Join(want.warns, "\x00") {
				if id, ok := ev.KnownOpen("unresolved_refs_first_found_order"); ok && strings.Join(eraseFirstFound(ge), "\x00") == strings.Join(eraseFirstFound(we), "\x00") && strings.Join(gw, "\x00") == strings.Join(want.warns, "\x00") {
					knownHit[id] = true
					continue
				}
				return ev.Failf("continue-on-errors=%v: a validator that has validated another document before reports errors %q warnings %q; a fresh validator reports errors %q warnings %q", cont, ge, gw, want.errs, want.warns)
			}
			out.Classes = append(out.Classes, "validator-reused-after-another-document")
		}
	}
	for id := range knownHit {
		out.Known = append(out.Known, id)
	}
	// (b)
	if s, c2 := ref[false], ref[true]; s != nil && c2 != nil {
		se, ce := s.errs, c2.errs
		if len(knownHit) > 0 {
			se, ce = eraseFirstFound(se), eraseFirstFound(ce)
		}
		if missing, ok := subset(se, ce); !ok {
			return ev.Failf("the stop-early error %q is not reported with continue-on-errors; stop-early %q, continue %q", missing, s.errs, c2.errs)
		}
	}
	broken := 0
	for _, e := range c.Edits {
		if !strings.HasPrefix(e, "mutate:") {
			broken++
		}
	}
	warns := 0
	if r := ref[false]; r != nil {
		warns = len(r.warns)
	}
	out.Classes = append(out.Classes, fmt.Sprintf("renderings:%d", loaded), fmt.Sprintf("rule-edits:%d", broken), fmt.Sprintf("has-warnings:%v", warns > 0), "source:"+specdoc.SourceClass(c.Source))
	out.Nontrivial = (broken >= 2 || warns > 0) && loaded >= 2
	return out
}

func TestProp(t *testing.T)   { ev.Prop(t, true, genCase, check) }
func TestReplay(t *testing.T) { ev.Replay(t, check) }
