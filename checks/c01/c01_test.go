// Package c01 decides property C01: schema validation verdicts agree with
// JSON Schema draft 4, and the one-shot entry point agrees with a validator
// object built from the same schema.
package c01

import (
	"encoding/json"
	"fmt"
	"os"
	"sort"
	"strings"
	"testing"

	"github.com/go-openapi/strfmt"
	"pgregory.net/rapid"

	"verif/internal/ev"
	"verif/internal/gen"
	"verif/internal/hook"
	"verif/internal/obs"
	"verif/internal/refmodel"
	"verif/internal/reg"
)

var registry = reg.New()

func TestMain(m *testing.M) {
	// oracle calibration: the reference model must agree with every labelled case
	// of the draft-4 JSON-Schema-Test-Suite shipped with the repository
	n, skipped, mism := refmodel.Calibrate("/repo/fixtures/jsonschema_suite", reg.Func(strfmt.Default))
	if len(mism) > 0 || n < 250 {
		fmt.Printf("ORACLE-BROKEN: reference model disagrees with the JSON-Schema-Test-Suite (%d evaluated, %d skipped):\n%s\n", n, skipped, strings.Join(mism, "\n"))
		os.Exit(3)
	}
	ev.Note(fmt.Sprintf("oracle calibration in every shard: reference model agrees with all %d labelled JSON-Schema-Test-Suite cases evaluated (%d skipped: non-local $ref)", n, skipped))
	ev.Describe("(schema, instance) pairs: schemas from a recursive grammar over the supported draft-4 vocabulary (valid under the draft-4 meta-schema; "+
		"local sibling-free $ref into acyclic definitions; format only next to an explicit type; numbers with at most 15 significant digits), "+
		"instances built to satisfy the schema then perturbed, or unrelated random values; oracle = independent reference evaluator with exact rational arithmetic, "+
		"calibrated at start-up on the JSON-Schema-Test-Suite. Non-trivial = the schema has at least two keyword groups or a composition keyword and the instance is not a bare scalar checked against a bare type; distinct by content hash of (schema, instance, registry)",
		"draft-4 semantics are those of internal/refmodel (calibrated on every run against /repo/fixtures/jsonschema_suite, all files except refRemote)",
		"patterns are valid Go regexps; formats are decided by the registry object that is also handed to the library",
		"integer-valued number literals are written without fraction or exponent, so lexical and mathematical integer-ness coincide")
	ev.Main(m, "C01")
}

type Case struct {
	Schema   string `json:"schema"`
	Instance string `json:"instance"`
	Reg      string `json:"reg"` // "custom" or "nil"
}

func opts() gen.SchemaOpts {
	o := gen.SchemaOpts{MaxDepth: 3, Formats: append(append([]string{}, reg.Names...), reg.Unknown...)}
	if ev.Thorough() {
		o.MaxDepth = 5
	}
	return o
}

// taggedMessages builds the shape on which the library's way of singling out some messages matters: it keeps the
// messages of composition alternatives that start with a marker ("IMPORTANT!") whatever the outcome of the
// composition, and a message starts with the name of the offending member. So: a composition whose alternatives
// fail on a root-level member named like the marker, or on the one message the library itself tags (a "headers"
// member holding a $ref in an object closed by additionalProperties:false), next to alternatives that accept.
func taggedMessages(t *rapid.T) (map[string]any, any) {
	name := gen.PickUniform(t, []string{"IMPORTANT!x", "IMPORTANT!", "headers"}, "taggedname")
	var failing map[string]any
	var inst map[string]any
	if name == "headers" {
		failing = map[string]any{"additionalProperties": false, "properties": map[string]any{"a": map[string]any{}}}
		inst = map[string]any{"headers": map[string]any{"h": map[string]any{"$ref": "#/x"}}}
	} else {
		failing = map[string]any{"properties": map[string]any{name: map[string]any{"type": "integer"}}}
		inst = map[string]any{name: "not an integer"}
	}
	other := gen.PickUniform(t, []map[string]any{{"type": "object"}, {}, {"required": []any{"zz"}}, {"minProperties": gen.Number(1)}}, "taggedother")
	alts := []any{failing, other}
	if rapid.Bool().Draw(t, "taggedorder") {
		alts = []any{other, failing}
	}
	if rapid.Bool().Draw(t, "taggedthird") {
		alts = append(alts, map[string]any{"type": "object", "maxProperties": gen.Number(5)})
	}
	doc := map[string]any{gen.PickUniform(t, []string{"anyOf", "anyOf", "oneOf", "allOf"}, "taggedcomp"): alts}
	if rapid.Bool().Draw(t, "taggednested") {
		doc = map[string]any{"properties": map[string]any{"p": doc}}
		return doc, map[string]any{"p": inst}
	}
	return doc, inst
}

func genCase(t *rapid.T) Case {
	doc := gen.Schema(t, opts())
	budget := 12
	if ev.Thorough() {
		budget = 30
	}
	inst := gen.InstanceFor(t, doc, budget)
	if gen.UniformIndex(t, 64, "tagged") == 0 {
		doc, inst = taggedMessages(t)
	}
	r := "custom"
	if rapid.IntRange(0, 9).Draw(t, "nilreg") == 0 {
		r = "nil"
	}
	return Case{Schema: gen.Text(doc), Instance: gen.Text(inst), Reg: r}
}

func registryFor(name string) strfmt.Registry {
	if name == "nil" {
		return nil
	}
	return registry
}

// groupsOf lists the keyword groups used anywhere in a schema document.
func groupsOf(v any, acc map[string]bool) {
	switch x := v.(type) {
	case map[string]any:
		for k, w := range x {
			switch k {
			case "type":
				acc["type"] = true
			case "enum":
				acc["enum"] = true
				if arr, ok := w.([]any); ok {
					for _, e := range arr {
						if e == nil {
							acc["enum-with-null"] = true
						}
					}
				}
				continue
			case "multipleOf", "maximum", "minimum":
				acc["numeric"] = true
			case "minLength", "maxLength", "pattern":
				acc["string"] = true
			case "format":
				acc["format"] = true
			case "items", "additionalItems", "minItems", "maxItems", "uniqueItems":
				acc["array"] = true
				if k == "additionalItems" {
					if _, isSchema := w.(map[string]any); isSchema {
						if tuple, ok := x["items"].([]any); ok && len(tuple) >= 2 {
							acc["tuple2+schema-additionalItems"] = true
						}
					}
				}
			case "properties", "patternProperties", "additionalProperties", "required", "minProperties", "maxProperties":
				acc["object"] = true
			case "allOf", "anyOf", "oneOf", "not":
				acc["composition"] = true
			case "dependencies":
				acc["deps"] = true
			case "$ref":
				acc["ref"] = true
			case "default":
				continue
			}
			groupsOf(w, acc)
		}
	case []any:
		for _, w := range x {
			groupsOf(w, acc)
		}
	}
}

func hasNull(v any) bool {
	switch x := v.(type) {
	case nil:
		return true
	case []any:
		for _, w := range x {
			if hasNull(w) {
				return true
			}
		}
	case map[string]any:
		for _, w := range x {
			if hasNull(w) {
				return true
			}
		}
	}
	return false
}

func check(c Case) (out ev.Outcome) {
	schemaRaw, err := refmodel.Decode([]byte(c.Schema))
	if err != nil {
		return ev.Failf("harness: schema text does not decode: %v", err)
	}
	instRaw, err := refmodel.Decode([]byte(c.Instance))
	if err != nil {
		return ev.Failf("harness: instance text does not decode: %v", err)
	}
	if !gen.NumbersInDomain(schemaRaw) || !gen.NumbersInDomain(instRaw) {
		out.Excluded = append(out.Excluded, "number with more than 15 significant digits or beyond 2^53")
		return out
	}
	rg := registryFor(c.Reg)
	strict := (&refmodel.Evaluator{Root: schemaRaw, Formats: reg.Func(rg)}).Valid(schemaRaw, instRaw)

	data, _ := obs.DecodeStd(c.Instance)
	l1 := obs.Against(c.Schema, data, rg)
	data2, _ := obs.DecodeStd(c.Instance)
	l2 := obs.ViaValidator(c.Schema, data2, "", rg)

	grp := map[string]bool{}
	groupsOf(schemaRaw, grp)
	var gl []string
	for g := range grp {
		gl = append(gl, g)
	}
	sort.Strings(gl)
	for _, g := range gl {
		out.Classes = append(out.Classes, "kw:"+g)
	}
	main := 0
	for _, g := range []string{"type", "enum", "numeric", "string", "format", "array", "object", "composition", "deps", "ref"} {
		if grp[g] {
			main++
		}
	}
	for i := 0; i < len(gl); i++ {
		for j := i + 1; j < len(gl) && len(gl) <= 5; j++ {
			out.Classes = append(out.Classes, "pair:"+gl[i]+"+"+gl[j])
		}
	}
	out.Classes = append(out.Classes, "instance:"+refmodel.Kind(instRaw), fmt.Sprintf("model-valid:%v", strict), "reg:"+c.Reg)
	if hasNull(instRaw) {
		out.Classes = append(out.Classes, "instance-has-null")
	}
	k := refmodel.Kind(instRaw)
	scalar := k != "array" && k != "object"
	out.Nontrivial = (main >= 2 || grp["composition"]) && !(scalar && main == 1 && grp["type"])

	if l1.Panic != "" || l2.Panic != "" {
		hook.ResetPools()
		p, st := l1.Panic, l1.Stack
		if p == "" {
			p, st = l2.Panic, l2.Stack
		}
		if id, ok := ev.KnownOpen("spec_marshal_unescaped_key"); ok && strings.Contains(p, "spec.OrderSchemaItems") && gen.KeyNeedsEscape(schemaRaw) && grp["ref"] {
			out.Known = append(out.Known, id)
			return out
		}
		return failWith(out, "library panicked instead of giving a verdict: %s [%s]", p, obs.ShortStack(st))
	}
	if l1.Valid != l2.Valid {
		return failWith(out, "one-shot AgainstSchema says valid=%v but a validator object says valid=%v (draft 4: %v); one-shot errors %q, object errors %q", l1.Valid, l2.Valid, strict, l1.Errors, l2.Errors)
	}
	if l1.Valid == strict {
		return out
	}
	// disagreement with strict draft 4: is it exactly a listed (open) finding?
	// Try the smallest set of open deviations whose exact replica gives the library's verdict.
	type devOpt struct {
		id  string
		set func(*refmodel.Deviations)
	}
	var avail []devOpt
	if id, ok := ev.KnownOpen("addlprops_id_schema"); ok {
		avail = append(avail, devOpt{id, func(d *refmodel.Deviations) { d.AdditionalPropertiesIgnoresIDAndSchema = true }})
	}
	if id, ok := ev.KnownOpen("null_skips_composition"); ok {
		avail = append(avail, devOpt{id, func(d *refmodel.Deviations) { d.NullSkipsComposition = true }})
	}
	for size := 1; size <= len(avail); size++ {
		for mask := 1; mask < 1<<len(avail); mask++ {
			if bitsSet(mask) != size {
				continue
			}
			var dev refmodel.Deviations
			var ids []string
			for i, a := range avail {
				if mask&(1<<i) != 0 {
					a.set(&dev)
					ids = append(ids, a.id)
				}
			}
			if (&refmodel.Evaluator{Root: schemaRaw, Formats: reg.Func(rg), Dev: dev}).Valid(schemaRaw, instRaw) == l1.Valid {
				out.Known = ids
				return out
			}
		}
	}
	return failWith(out, "library says valid=%v, draft 4 says valid=%v; library errors: %q", l1.Valid, strict, l1.Errors)
}

func bitsSet(m int) int {
	n := 0
	for ; m != 0; m &= m - 1 {
		n++
	}
	return n
}

func failWith(out ev.Outcome, format string, a ...any) ev.Outcome {
	out.Fail = fmt.Sprintf(format, a...)
	return out
}

func TestProp(t *testing.T)   { ev.Prop(t, false, genCase, check) }
func TestReplay(t *testing.T) { ev.Replay(t, check) }
func FuzzC01(f *testing.F)    { ev.FuzzProp(f, false, genCase, check) }

// TestAuditDump writes generated (schema, instance, model verdict) triples to VERIF_AUDIT_OUT so that an
// independent implementation (python-jsonschema's Draft4Validator, tools/audit_refmodel.py) can be compared
// with the reference model. Evidence about the oracle, not a deciding step.
func TestAuditDump(t *testing.T) {
	path := os.Getenv("VERIF_AUDIT_OUT")
	if path == "" {
		t.Skip("VERIF_AUDIT_OUT not set")
	}
	f, err := os.Create(path)
	if err != nil {
		t.Fatal(err)
	}
	defer f.Close()
	enc := json.NewEncoder(f)
	rapid.Check(t, func(rt *rapid.T) {
		c := genCase(rt)
		schemaRaw, err1 := refmodel.Decode([]byte(c.Schema))
		instRaw, err2 := refmodel.Decode([]byte(c.Instance))
		if err1 != nil || err2 != nil || !gen.NumbersInDomain(schemaRaw) || !gen.NumbersInDomain(instRaw) {
			return
		}
		// formats off on both sides: python-jsonschema ignores format without a format checker
		v := (&refmodel.Evaluator{Root: schemaRaw}).Valid(schemaRaw, instRaw)
		_ = enc.Encode(map[string]any{"schema": json.RawMessage(c.Schema), "instance": json.RawMessage(c.Instance), "model_valid": v})
	})
}
