// Package c05 decides property C05: concurrent validations are race-free and
// independent of each other. The binary is built with -race; every object
// handed back to a pool is scribbled and, at generated points, the redeeming
// goroutine yields the processor.
package c05

import (
	"context"
	"fmt"
	"regexp"
	"runtime"
	"strconv"
	"strings"
	"sync"
	"sync/atomic"
	"testing"

	"github.com/go-openapi/spec"
	"github.com/go-openapi/strfmt"
	"github.com/go-openapi/validate"
	"pgregory.net/rapid"

	"verif/internal/ev"
	"verif/internal/gen"
	"verif/internal/hook"
	"verif/internal/obs"
	"verif/internal/reg"
	"verif/internal/scribble"
)

var registry = reg.New()

func TestMain(m *testing.M) {
	ev.Describe("2..64 goroutines (quick: up to 16), each with 1..12 calls out of: AgainstSchema on schemas shared between goroutines (reference-free) with per-goroutine instances; Validate on one shared long-lived non-recycling validator; "+
		"NewSpecValidator(...).Validate on the goroutine's own document; the value helpers incl. Pattern; plus, in half of the cases, a goroutine calling SetContinueOnErrors. GOMAXPROCS drawn from {1,2,4,16} in the plain binary (left alone under -race, where resizing it crashed the detector's runtime); all goroutines are released together. "+
		"Every redeemed object is scribbled (drawn polarity) and the redeeming goroutine yields at generated points. Oracle: each call's outcome equals its outcome computed sequentially beforehand; the binary runs under the Go race detector (any report fails the run). "+
		"Non-trivial = at least two goroutines overlapping on the same pool types with at least one invalid outcome and outcomes that differ between goroutines; distinct by content hash",
		"the Go scheduler is not controlled: interleavings are sampled; the race detector reports races of executed access pairs without needing the bad timing; scribbling makes stale reads deterministic",
		"schemas shared between goroutines contain no $ref (in-place expansion is outside the property); every document is loaded per goroutine and validated with its own copy of the Swagger schema",
		"Spec calls set continue-on-errors explicitly on the validator, so their expected outcome does not depend on the package-level default that the setter goroutine changes")
	ev.Main(m, "C05")
}

type Op struct {
	Kind     string `json:"kind"` // against | shared | spec | pattern | enum
	S        int    `json:"s,omitempty"`
	Data     string `json:"data,omitempty"`
	Doc      string `json:"doc,omitempty"`
	Continue bool   `json:"continue,omitempty"`
	Pattern  string `json:"pattern,omitempty"`
	// Fresh makes the pattern one the process has never compiled: an empty capture group named after a process-wide
	// counter is put in front at execution time, so its first compilation happens while other goroutines look
	// patterns up. The expected answer then comes from Go's regexp, not from an earlier call.
	Fresh bool `json:"fresh,omitempty"`
}

var freshCounter uint64

// freshPattern makes an expression the process has never seen out of a pattern, without changing what it matches
// or whether it compiles: an empty capture group whose name carries a process-wide counter is put in front.
func freshPattern(pattern string) string {
	return "(?P<n" + strconv.FormatUint(atomic.AddUint64(&freshCounter, 1), 10) + ">)" + pattern
}

type Case struct {
	Schemas    []string `json:"schemas"`
	Goroutines [][]Op   `json:"goroutines"`
	Procs      int      `json:"gomaxprocs"`
	Setter     bool     `json:"setter"`
	Poison     bool     `json:"poison"`
	YieldMask  uint32   `json:"yield_mask"`
	// NoScribble leaves redeemed objects as they are (scribbling would hide state a constructor forgets to reset)
	NoScribble bool `json:"no_scribble,omitempty"`
}

func genCase(t *rapid.T) Case {
	var c Case
	ns := rapid.IntRange(1, 3).Draw(t, "nschemas")
	var docs []map[string]any
	for i := 0; i < ns; i++ {
		d := gen.Schema(t, gen.SchemaOpts{MaxDepth: 3, Formats: reg.Names, NoRef: true, Defaults: rapid.Bool().Draw(t, "defaults"), ObjectBias: rapid.Bool().Draw(t, "objbias")})
		if i == 0 && rapid.Bool().Draw(t, "rootobject") {
			// the state a long-lived validator keeps for the root of its schema is what goroutines share: a root object
			// with required members, defaults, a pattern and a closed set of names, validated with members missing
			d = map[string]any{"type": "object",
				"properties": map[string]any{
					"a": map[string]any{"type": "string", "default": "dflt1"},
					"b": map[string]any{"type": "integer", "default": gen.Number(100), "maximum": gen.Number(200)},
					"c": d,
				},
				"patternProperties":    map[string]any{"^x": map[string]any{"type": "boolean"}},
				"additionalProperties": rapid.Bool().Draw(t, "rootopen"),
				"required":             []any{"a", "b"}}
		}
		docs = append(docs, d)
		c.Schemas = append(c.Schemas, gen.Text(d))
	}
	maxG := 16
	if ev.Thorough() {
		maxG = 64
	}
	g := rapid.SampledFrom([]int{2, 2, 3, 4, 8, 16, 32, 64}).Draw(t, "goroutines")
	if g > maxG {
		g = maxG
	}
	specBudget := rapid.IntRange(0, 3).Draw(t, "specbudget")
	for i := 0; i < g; i++ {
		n := rapid.IntRange(1, 12).Draw(t, "nops")
		var ops []Op
		for j := 0; j < n; j++ {
			k := rapid.SampledFrom([]string{"against", "against", "against", "shared", "shared", "pattern", "enum", "spec"}).Draw(t, "opkind")
			op := Op{Kind: k}
			switch k {
			case "against", "shared":
				op.S = rapid.IntRange(0, ns-1).Draw(t, "s")
				op.Data = gen.Text(gen.InstanceFor(t, docs[op.S], 10))
			case "pattern":
				op.Pattern = rapid.SampledFrom(append([]string{"(", "[a-"}, gen.Patterns...)).Draw(t, "pat") + rapid.SampledFrom([]string{"", "", "x?", "(y)?"}).Draw(t, "patsuffix")
				op.Data = gen.Str(t)
				op.Fresh = rapid.Bool().Draw(t, "freshpattern")
			case "enum":
				op.Data = gen.Text(gen.Scalar(t))
			case "spec":
				if specBudget <= 0 {
					continue
				}
				specBudget--
				doc, info := gen.Spec(t, gen.SpecOpts{MaxPaths: 2})
				if rapid.Bool().Draw(t, "breakdoc") {
					gen.ApplyRuleEdit(t, gen.ErrorPathEdit(t), doc, info)
				}
				op.Doc = gen.Text(doc)
				op.Continue = rapid.Bool().Draw(t, "continue")
			}
			ops = append(ops, op)
		}
		c.Goroutines = append(c.Goroutines, ops)
	}
	c.Procs = rapid.SampledFrom([]int{1, 2, 4, 16}).Draw(t, "gomaxprocs")
	c.Setter = rapid.Bool().Draw(t, "setter")
	c.Poison = rapid.Bool().Draw(t, "poison")
	c.NoScribble = rapid.IntRange(0, 2).Draw(t, "noscribble") == 0
	c.YieldMask = rapid.SampledFrom([]uint32{0, 1, 3, 7}).Draw(t, "yieldmask")
	return c
}

type env struct {
	shared     []*spec.Schema
	longLived  []*validate.SchemaValidator
	enumValues []interface{}
	// one options slice with spare capacity, shared by every AgainstSchema call of every goroutine
	sharedOpts []validate.Option
	// sequential is set while the expected outcomes are computed
	sequential bool
}

func exec(e *env, op Op) obs.Outcome {
	switch op.Kind {
	case "against":
		data, _ := obs.DecodeStd(op.Data)
		var out obs.Outcome
		if msg, st := obs.Guard(func() { out = obs.FromError(validate.AgainstSchema(e.shared[op.S], data, registry, e.sharedOpts...)) }); msg != "" {
			return obs.Outcome{Panic: msg, Stack: st}
		}
		return out
	case "shared":
		data, _ := obs.DecodeStd(op.Data)
		var out obs.Outcome
		if msg, st := obs.Guard(func() { out = obs.FromResult(e.longLived[op.S].Validate(data)) }); msg != "" {
			return obs.Outcome{Panic: msg, Stack: st}
		}
		return out
	case "pattern":
		if op.Fresh {
			pattern := freshPattern(op.Pattern)
			if e.sequential {
				// the expected answer: Go's regexp on the same expression
				re, err := regexp.Compile(pattern)
				switch {
				case err != nil:
					return obs.Outcome{Errors: []string{"invalid pattern"}}
				case re.MatchString(op.Data):
					return obs.Outcome{Valid: true}
				}
				return obs.Outcome{Errors: []string{"no match"}}
			}
			err := validate.Pattern("p", "query", op.Data, pattern)
			switch {
			case err == nil:
				return obs.Outcome{Valid: true}
			case strings.Contains(err.Error(), "pattern is invalid"):
				return obs.Outcome{Errors: []string{"invalid pattern"}}
			}
			return obs.Outcome{Errors: []string{"no match"}}
		}
		err := validate.Pattern("p", "query", op.Data, op.Pattern)
		if err == nil {
			return obs.Outcome{Valid: true}
		}
		return obs.Outcome{Errors: []string{err.Error()}}
	case "enum":
		data, _ := obs.DecodeStd(op.Data)
		o := obs.Outcome{Valid: true}
		if err := validate.Enum("p", "query", data, e.enumValues); err != nil {
			o = obs.Outcome{Errors: []string{err.Error()}}
		}
		if err := validate.ReadOnly(validate.WithOperationRequest(context.Background()), "p", "body", data); err != nil {
			o.Valid = false
			o.Errors = append(o.Errors, err.Error())
		}
		if s, ok := data.(string); ok {
			if err := validate.MaxLength("p", "query", s, 2); err != nil {
				o.Valid = false
				o.Errors = append(o.Errors, err.Error())
			}
		}
		return o
	case "spec":
		doc, err, pmsg := obs.LoadDoc([]byte(op.Doc))
		if err != nil || pmsg != "" {
			return obs.Outcome{Panic: "harness: document does not load"}
		}
		return obs.ValidateSpec(doc, strfmt.Default, op.Continue, nil).Outcome
	}
	return obs.Outcome{Panic: "harness: unknown op"}
}

func check(c Case) (out ev.Outcome) {
	defer hook.SetRedeemHook(nil)
	defer validate.SetContinueOnErrors(false)
	hook.SetRedeemHook(nil)
	hook.ResetPools()
	e := &env{enumValues: []interface{}{"a", float64(1), nil, true, "ab"}, sharedOpts: append(make([]validate.Option, 0, 4), validate.EnableObjectArrayTypeCheck(false))}
	for _, txt := range c.Schemas {
		s, err := obs.ParseSchema(txt)
		if err != nil {
			return ev.Failf("harness: %v", err)
		}
		e.shared = append(e.shared, s)
		s2, _ := obs.ParseSchema(txt)
		var v *validate.SchemaValidator
		if msg, _ := obs.Guard(func() { v = validate.NewSchemaValidator(s2, nil, "", registry) }); msg != "" {
			out.Excluded = append(out.Excluded, "building a validator panics (a C06 matter)")
			return out
		}
		e.longLived = append(e.longLived, v)
	}
	// expected outcomes, sequentially
	e.sequential = true
	want := make([][]obs.Outcome, len(c.Goroutines))
	invalid := false
	distinct := map[string]bool{}
	kinds := map[string]int{}
	for gi, ops := range c.Goroutines {
		for _, op := range ops {
			if (op.Kind == "against" || op.Kind == "shared") && op.S >= len(c.Schemas) {
				return ev.Failf("harness: bad schema index")
			}
			o := exec(e, op)
			if o.Panic != "" {
				out.Excluded = append(out.Excluded, "a call panics even sequentially (a C06/C07 matter)")
				hook.ResetPools()
				return out
			}
			want[gi] = append(want[gi], o)
			if !o.Valid {
				invalid = true
			}
			distinct[o.String()] = true
			kinds[op.Kind]++
		}
	}
	// concurrent run
	e.sequential = false
	hook.ResetPools()
	poison := c.Poison
	var tick uint32
	mask := c.YieldMask
	hook.SetRedeemHook(func(obj any) bool {
		if !c.NoScribble {
			scribble.Scribble(obj, poison)
		}
		if mask != 0 && atomic.AddUint32(&tick, 1)&mask == 0 {
			runtime.Gosched()
		}
		return false
	})
	procs := c.Procs
	if procs < 1 {
		procs = 1
	}
	if !raceEnabled {
		defer runtime.GOMAXPROCS(runtime.GOMAXPROCS(procs))
	} else {
		procs = runtime.GOMAXPROCS(0)
	}
	var wg sync.WaitGroup
	start := make(chan struct{})
	var mu sync.Mutex
	var failures []string
	for gi, ops := range c.Goroutines {
		wg.Add(1)
		go func(gi int, ops []Op) {
			defer wg.Done()
			<-start
			for j, op := range ops {
				got := exec(e, op)
				if !got.Same(want[gi][j]) {
					mu.Lock()
					failures = append(failures, fmt.Sprintf("goroutine %d call %d (%s): concurrently it returns %s [%s]; run alone it returns %s", gi, j, op.Kind, got, obs.ShortStack(got.Stack), want[gi][j]))
					mu.Unlock()
					return
				}
			}
		}(gi, ops)
	}
	stop := make(chan struct{})
	var setter sync.WaitGroup
	if c.Setter {
		setter.Add(1)
		go func() {
			defer setter.Done()
			<-start
			for i := 0; ; i++ {
				select {
				case <-stop:
					return
				default:
				}
				validate.SetContinueOnErrors(i%2 == 0)
				runtime.Gosched()
			}
		}()
	}
	close(start)
	wg.Wait() // the workers
	close(stop)
	setter.Wait()
	hook.SetRedeemHook(nil)
	hook.ResetPools()
	if len(failures) > 0 {
		return ev.Failf("%d goroutines, GOMAXPROCS %d, setter %v, poison %v: %s", len(c.Goroutines), procs, c.Setter, c.Poison, strings.Join(failures, " || "))
	}
	for k := range kinds {
		out.Classes = append(out.Classes, "op:"+k)
	}
	out.Classes = append(out.Classes, fmt.Sprintf("goroutines:%s", gbucket(len(c.Goroutines))), fmt.Sprintf("gomaxprocs:%d", procs), fmt.Sprintf("setter:%v", c.Setter))
	out.Nontrivial = len(c.Goroutines) >= 2 && invalid && len(distinct) >= 2
	return out
}

func gbucket(n int) string {
	switch {
	case n <= 2:
		return "2"
	case n <= 4:
		return "3-4"
	case n <= 16:
		return "5-16"
	default:
		return "17-64"
	}
}

func TestProp(t *testing.T)   { ev.Prop(t, true, genCase, check) }
func TestReplay(t *testing.T) { ev.Replay(t, check) }
