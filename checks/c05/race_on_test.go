//go:build race

package c05

// raceEnabled tells that the binary runs under the Go race detector. Resizing GOMAXPROCS there
// was seen to crash inside the detector's runtime (SIGSEGV in __tsan::ThreadContext::OnFinished
// while runtime.GOMAXPROCS restarted the world), so the -race binaries leave GOMAXPROCS alone.
const raceEnabled = true
