//go:build !race

package c05

const raceEnabled = false
