// Package c13 decides property C13: numeric verdicts (minimum, maximum,
// inclusive or exclusive, multipleOf) depend on the number, not on the Go type
// that carries it.
//
// Generator: a carrier kind (12 native numeric kinds + json.Number) is drawn
// first, then an entry point, a declared type/format, a keyword, a value built
// inside the range of the carrier and of the declared type/format, and a
// constraint built relative to the value (equal, one off, a fraction off, far
// away, negative, zero, near ±2^31 and ±2^53). Numbers travel as decimal text.
//
// Oracle: exact comparison / divisibility in math/big.Rat on the numbers
// carried. Every other carrier that can hold the same number exactly is run
// through the same entry point too; all of them must give the oracle's verdict
// (which makes the metamorphic "same verdict for every carrier" explicit: a
// disagreement between two carriers is reported as such).
package c13

import (
	"encoding/json"
	"fmt"
	"math/big"
	"sort"
	"strings"
	"testing"

	"github.com/go-openapi/spec"
	"github.com/go-openapi/strfmt"
	"github.com/go-openapi/validate"
	"pgregory.net/rapid"

	"verif/internal/ev"
	sm "verif/internal/simplemodel"
)

func TestMain(m *testing.M) {
	ev.Describe("rapid cases (carrier kind, entry point, declared type/format, keyword, value, constraint): the value is built inside the carrier's and the format's range, the constraint relative to it "+
		"(equal, ±1, ± a fraction, far, negative, zero, near ±2^31 / ±2^53; for multipleOf an exact divisor, a menu of decimal and integer factors, or an unrelated factor); "+
		"a quarter of the schema/param/header cases declare a second keyword of another family beside the first (mostly one that holds); every other carrier able to hold the same number exactly is evaluated through the same entry point. "+
		"non-trivial = integer-kinded primary carrier against a fractional, negative or > 2^31 constraint, or multipleOf with |quotient| > 1e9, or a float32 carrier with a non-dyadic constraint, or a json.Number carrier; distinct by content hash",
		"a float64 (value or constraint) stands for the decimal reading of its shortest round-trip text; values and constraints are integers within ±(2^53-1) (the safe-integer range, which is also what the library documents for integers carried by floats) or decimals with at most 6 fractional and 15 significant digits, so the reading is unambiguous; a float32 stands for its exact binary value",
		"constraints that the declared type/format cannot represent (fractional bound on type integer, bound outside int32 for format int32) are outside the domain (the library has a dedicated 'boundary value must be of type' diagnosis); constructed away, counted as excluded when replayed",
		"json.Number is a carrier at the schema entry and for the three *NativeType helpers (they take an interface{}); parameter/header validators take the typed value produced by parameter binding and report a json.Number as a value of the wrong type, and the typed helpers (MinimumInt, ...) cannot be handed one",
		"the Int/Uint helper variants take the constraint as int64/uint64 by signature, so integer-kinded carriers at the 'helper' entry only meet integer (and for unsigned kinds non-negative) constraints",
		"int and uint are 64 bits wide")
	ev.Main(m, "C13")
}

// Case is one generated input. Numbers are decimal text.
type Case struct {
	Entry   string `json:"entry"`            // schema | param | header | helper | native
	Type    string `json:"type,omitempty"`   // "", number, integer
	Format  string `json:"format,omitempty"` // "", int32, int64, float, double
	In      string `json:"in,omitempty"`     // parameter location
	Keyword string `json:"keyword"`          // minimum | exclusiveMinimum | maximum | exclusiveMaximum | multipleOf
	C       string `json:"c"`                // constraint
	// optional second keyword of another family (minimum / maximum / multipleOf), declared beside the first
	Keyword2 string `json:"keyword2,omitempty"`
	C2       string `json:"c2,omitempty"`
	V        string `json:"v"`                 // instance
	Carrier  string `json:"carrier"`           // primary carrier kind
	Literal  string `json:"literal,omitempty"` // text handed over when the primary carrier is json.Number (same number as V)
}

const (
	eSchema = "schema"
	eParam  = "param"
	eHeader = "header"
	eHelper = "helper"
	eNative = "native"
)

const (
	mJSONUntyped = "jsonnumber_without_declared_type"
	mJSONLiteral = "jsonnumber_integer_literal_form"
)

var (
	allCarriers = append(append([]string{}, sm.GoNumericKinds...), sm.JSONNumber)
	entries     = []string{eSchema, eParam, eHeader, eHelper, eNative}
	limit       = new(big.Rat).SetInt64(sm.Limit)
	two31       = int64(1) << 31
)

func rat(n int64) *big.Rat       { return new(big.Rat).SetInt64(n) }
func frac(n, d int64) *big.Rat   { return big.NewRat(n, d) }
func add(a, b *big.Rat) *big.Rat { return new(big.Rat).Add(a, b) }
func absr(a *big.Rat) *big.Rat   { return new(big.Rat).Abs(a) }
func floor(a *big.Rat) *big.Rat  { return new(big.Rat).SetInt(new(big.Int).Div(a.Num(), a.Denom())) }
func clamp(a, lo, hi *big.Rat) *big.Rat {
	if a.Cmp(lo) < 0 {
		return new(big.Rat).Set(lo)
	}
	if a.Cmp(hi) > 0 {
		return new(big.Rat).Set(hi)
	}
	return a
}

func pow10(d int) int64 {
	p := int64(1)
	for i := 0; i < d; i++ {
		p *= 10
	}
	return p
}

// usable tells whether r can be written as a constraint / float64 value of the domain.
func usable(r *big.Rat) bool {
	if absr(r).Cmp(limit) > 0 {
		return false
	}
	s, ok := sm.RatText(r)
	if !ok || sm.FracDigits(r) > 6 {
		return false
	}
	_, ok = sm.FloatFor(s)
	return ok
}

func genInteger(t *rapid.T, lo, hi int64) int64 {
	var n int64
	switch rapid.IntRange(0, 8).Draw(t, "vmode") {
	case 0:
		n = 0
	case 1:
		n = lo
	case 2:
		n = hi
	case 3, 4:
		n = rapid.Int64Range(-20, 20).Draw(t, "small")
	case 5:
		n = two31 + rapid.Int64Range(-2, 2).Draw(t, "d31")
		if rapid.Bool().Draw(t, "neg") {
			n = -n
		}
	case 6:
		n = sm.Limit - rapid.Int64Range(0, 3).Draw(t, "d53")
		if rapid.Bool().Draw(t, "neg") {
			n = -n
		}
	default:
		n = rapid.Int64Range(lo, hi).Draw(t, "any")
	}
	if n < lo {
		n = lo
	}
	if n > hi {
		n = hi
	}
	return n
}

var fracMenu = []*big.Rat{frac(1, 2), frac(1, 4), frac(3, 4), frac(1, 10), frac(1, 1000000), frac(5, 2), frac(1, 8), frac(3, 10)}

var factorMenu = []*big.Rat{rat(1), rat(2), rat(3), rat(5), rat(7), rat(10), rat(100), rat(1000000), rat(two31), rat(two31 + 1),
	frac(1, 2), frac(1, 4), frac(1, 10), frac(1, 100), frac(1, 1000), frac(1, 1000000), frac(3, 2), frac(5, 2), frac(3, 10), frac(3, 4)}

// pick chooses uniformly: rapid's integer generators favour small values
// (right for magnitudes, wrong for an even spread over kinds); its booleans are fair.
func pick[T any](t *rapid.T, from []T, label string) T {
	v := 0
	for i := 0; i < 10; i++ {
		v <<= 1
		if rapid.Bool().Draw(t, label) {
			v |= 1
		}
	}
	return from[v%len(from)]
}

func gen(t *rapid.T) Case {
	var c Case
	c.Carrier = pick(t, allCarriers, "carrier")
	if c.Carrier == sm.JSONNumber {
		// parameter and header validators take the typed value produced by parameter binding and report a
		// json.Number as a value of the wrong type (C16's ground); the typed helpers have no json.Number form
		c.Entry = pick(t, []string{eSchema, eSchema, eNative}, "entry")
	} else {
		c.Entry = pick(t, entries, "entry")
	}
	switch c.Entry {
	case eSchema:
		c.Type = pick(t, []string{"", "number", "number", "integer", "integer"}, "type")
	case eParam, eHeader:
		c.Type = pick(t, []string{"number", "integer"}, "type")
		if c.Entry == eParam {
			c.In = rapid.SampledFrom([]string{"query", "header", "path", "formData"}).Draw(t, "in")
		}
	}
	switch c.Type {
	case "integer":
		c.Format = rapid.SampledFrom([]string{"", "", "int32", "int64"}).Draw(t, "format")
	case "number":
		c.Format = rapid.SampledFrom([]string{"", "", "float", "double"}).Draw(t, "format")
	}
	c.Keyword = pick(t, sm.NumericKeywords, "keyword")

	// the range the value must stay in
	lo, hi := -sm.Limit, sm.Limit
	if l, h, ok := sm.KindRange(c.Carrier); ok {
		lo, hi = l, h
	}
	if c.Carrier == "float32" {
		lo, hi = -(1 << 24), 1<<24
	}
	if c.Format == "int32" {
		if lo < -two31 {
			lo = -two31
		}
		if hi > two31-1 {
			hi = two31 - 1
		}
	}
	integerOnly := sm.IsIntegerKind(c.Carrier) || c.Type == "integer"
	fractionalConstraint := c.Type != "integer" && !(c.Entry == eHelper && sm.IsIntegerKind(c.Carrier))

	// value
	var v *big.Rat
	if integerOnly || rapid.Bool().Draw(t, "intvalue") {
		v = rat(genInteger(t, lo, hi))
	} else if c.Carrier == "float32" || rapid.Bool().Draw(t, "dyadic") {
		j := rapid.IntRange(1, 6).Draw(t, "j")
		maxk := int64(1)<<23 - 1
		if c.Carrier != "float32" {
			maxk = 100_000_000 << uint(j)
		}
		v = frac(rapid.Int64Range(-maxk, maxk).Draw(t, "k"), int64(1)<<uint(j))
	} else {
		d := rapid.IntRange(1, 6).Draw(t, "d")
		maxn := 100_000_000 * pow10(d)
		v = frac(rapid.Int64Range(-maxn, maxn).Draw(t, "n"), pow10(d))
	}

	k := genConstraint(t, c, c.Keyword, v, fractionalConstraint)
	c.V, c.C = sm.MustText(v), sm.MustText(k)
	if (c.Entry == eSchema || c.Entry == eParam || c.Entry == eHeader) && rapid.IntRange(0, 3).Draw(t, "second") == 0 {
		var others []string
		for _, kw := range sm.NumericKeywords {
			if family(kw) != family(c.Keyword) {
				others = append(others, kw)
			}
		}
		c.Keyword2 = rapid.SampledFrom(others).Draw(t, "keyword2")
		k2 := genConstraint(t, c, c.Keyword2, v, fractionalConstraint)
		if !sm.Strict(c.Keyword2, v, k2) && rapid.IntRange(0, 2).Draw(t, "relax") > 0 {
			// mostly a second constraint that holds, so that the first one decides
			switch family(c.Keyword2) {
			case "min":
				k2 = add(floor(v), rat(-1))
			case "max":
				k2 = add(floor(v), rat(2))
			default:
				k2 = rat(1)
				if !v.IsInt() {
					k2 = absr(v)
				}
			}
			k2 = fixConstraint(c, c.Keyword2, k2, fractionalConstraint)
		}
		c.C2 = sm.MustText(k2)
	}

	if c.Carrier == sm.JSONNumber {
		c.Literal = literal(c.V, rapid.IntRange(0, 5).Draw(t, "literal"))
	}
	return c
}

func family(keyword string) string {
	switch keyword {
	case sm.Minimum, sm.ExclusiveMinimum:
		return "min"
	case sm.Maximum, sm.ExclusiveMaximum:
		return "max"
	}
	return "mult"
}

// genConstraint draws a constraint for the keyword relative to the value v.
func genConstraint(t *rapid.T, c Case, keyword string, v *big.Rat, fractionalConstraint bool) *big.Rat {
	var k *big.Rat
	sign := int64(1)
	if rapid.Bool().Draw(t, "csign") {
		sign = -1
	}
	if keyword != sm.MultipleOf {
		switch rapid.IntRange(0, 8).Draw(t, "cmode") {
		case 0:
			k = new(big.Rat).Set(v)
		case 1:
			k = add(v, rat(sign))
		case 2, 3:
			f := rapid.SampledFrom(fracMenu).Draw(t, "cfrac")
			k = add(v, new(big.Rat).Mul(f, rat(sign)))
		case 4:
			k = add(v, rat(sign*rapid.Int64Range(1, 1000).Draw(t, "cdelta")))
		case 5:
			k = rapid.SampledFrom([]*big.Rat{rat(0), rat(-1), rat(1), frac(-1, 2), frac(1, 2), frac(-5, 2)}).Draw(t, "cfixed")
		case 6:
			k = rapid.SampledFrom([]*big.Rat{rat(two31), rat(two31 - 1), rat(two31 + 1), frac(2*two31+1, 2), rat(sm.Limit), rat(sm.Limit - 1)}).Draw(t, "cbig")
			k = new(big.Rat).Mul(k, rat(sign))
		case 7:
			d := rapid.IntRange(0, 6).Draw(t, "cd")
			k = frac(rapid.Int64Range(-1000*pow10(d), 1000*pow10(d)).Draw(t, "cn"), pow10(d))
		default:
			// just across the value on the other side of zero / of the integer grid
			k = add(new(big.Rat).Neg(v), frac(sign, 2))
		}
	} else {
		av := absr(v)
		switch rapid.IntRange(0, 7).Draw(t, "mmode") {
		case 0, 1, 2:
			// an exact divisor of the value
			div := rapid.SampledFrom([]int64{1, 2, 3, 4, 5, 7, 8, 10, 16, 20, 25, 50, 100, 1000, 1000000}).Draw(t, "div")
			k = new(big.Rat).Quo(av, rat(div))
			if !usable(k) || (!fractionalConstraint && !k.IsInt()) {
				k = av
			}
		case 3, 4:
			k = rapid.SampledFrom(factorMenu).Draw(t, "factor")
		case 5:
			k = rat(rapid.Int64Range(1, 1000).Draw(t, "ifactor"))
		case 6:
			k = add(av, rapid.SampledFrom([]*big.Rat{rat(1), rat(-1), frac(1, 2), frac(1, 1000000)}).Draw(t, "off"))
		default:
			d := rapid.IntRange(1, 6).Draw(t, "md")
			k = frac(rapid.Int64Range(1, 1000*pow10(d)).Draw(t, "mn"), pow10(d))
		}
	}
	return fixConstraint(c, keyword, k, fractionalConstraint)
}

// fixConstraint brings a candidate constraint into the domain (construction, not rejection).
func fixConstraint(c Case, keyword string, k *big.Rat, fractionalConstraint bool) *big.Rat {
	// bring the constraint into the domain by construction
	if !fractionalConstraint || !usable(k) {
		k = floor(k)
	}
	k = clamp(k, new(big.Rat).Neg(limit), limit)
	if c.Format == "int32" {
		k = clamp(k, rat(-two31), rat(two31-1))
	}
	if c.Entry == eHelper && sm.IsUnsigned(c.Carrier) && k.Sign() < 0 {
		k = absr(k)
	}
	if keyword == sm.MultipleOf && k.Sign() <= 0 {
		k = rat(1)
	}
	return k
}

// literal writes the same number in another JSON number form.
func literal(text string, form int) string {
	hasFrac := strings.Contains(text, ".")
	switch form {
	case 1: // a fractional part of zeros / one more trailing zero
		if hasFrac {
			return text + "0"
		}
		return text + ".0"
	case 2: // exponent form
		if hasFrac {
			i := strings.IndexByte(text, '.')
			return text[:i] + text[i+1:] + fmt.Sprintf("e-%d", len(text)-i-1)
		}
		if strings.HasSuffix(text, "0") && text != "0" {
			return text[:len(text)-1] + "e1"
		}
		return text + "e0"
	case 3:
		if hasFrac {
			return text
		}
		return text + "E+0"
	}
	return text
}

// ---- running the library ----------------------------------------------------

func f64p(f float64) *float64 { return &f }

type constraint struct {
	keyword string
	text    string
	f       float64
	r       *big.Rat
}

func validations(cons []constraint) spec.CommonValidations {
	var cv spec.CommonValidations
	for _, k := range cons {
		setValidation(&cv, k.keyword, k.f)
	}
	return cv
}

func setValidation(cv *spec.CommonValidations, keyword string, c float64) {
	switch keyword {
	case sm.Minimum:
		cv.Minimum = f64p(c)
	case sm.ExclusiveMinimum:
		cv.Minimum, cv.ExclusiveMinimum = f64p(c), true
	case sm.Maximum:
		cv.Maximum = f64p(c)
	case sm.ExclusiveMaximum:
		cv.Maximum, cv.ExclusiveMaximum = f64p(c), true
	case sm.MultipleOf:
		cv.MultipleOf = f64p(c)
	}
}

func errText(e error) string {
	if e == nil {
		return ""
	}
	return e.Error()
}

func resText(r *validate.Result) string {
	if r == nil {
		return "<nil result>"
	}
	var parts []string
	for _, e := range r.Errors {
		parts = append(parts, e.Error())
	}
	return strings.Join(parts, "; ")
}

// run evaluates one carrier value through the entry point of the case.
func run(c Case, cons []constraint, value interface{}) (valid bool, detail string) {
	cf := cons[0].f
	switch c.Entry {
	case eSchema:
		var sb strings.Builder
		sb.WriteString("{")
		if c.Type != "" {
			fmt.Fprintf(&sb, "%q:%q,", "type", c.Type)
		}
		if c.Format != "" {
			fmt.Fprintf(&sb, "%q:%q,", "format", c.Format)
		}
		for i, k := range cons {
			if i > 0 {
				sb.WriteString(",")
			}
			switch k.keyword {
			case sm.Minimum:
				fmt.Fprintf(&sb, `"minimum":%s`, k.text)
			case sm.ExclusiveMinimum:
				fmt.Fprintf(&sb, `"minimum":%s,"exclusiveMinimum":true`, k.text)
			case sm.Maximum:
				fmt.Fprintf(&sb, `"maximum":%s`, k.text)
			case sm.ExclusiveMaximum:
				fmt.Fprintf(&sb, `"maximum":%s,"exclusiveMaximum":true`, k.text)
			case sm.MultipleOf:
				fmt.Fprintf(&sb, `"multipleOf":%s`, k.text)
			}
		}
		sb.WriteString("}")
		schema := new(spec.Schema)
		if err := json.Unmarshal([]byte(sb.String()), schema); err != nil {
			panic("harness: schema does not parse: " + sb.String() + ": " + err.Error())
		}
		err := validate.AgainstSchema(schema, value, strfmt.Default)
		return err == nil, errText(err)
	case eParam:
		p := &spec.Parameter{
			ParamProps:        spec.ParamProps{Name: "p", In: c.In},
			SimpleSchema:      spec.SimpleSchema{Type: c.Type, Format: c.Format},
			CommonValidations: validations(cons),
		}
		if c.In == "path" {
			p.Required = true
		}
		res := validate.NewParamValidator(p, strfmt.Default).Validate(value)
		return res.IsValid(), resText(res)
	case eHeader:
		h := &spec.Header{
			SimpleSchema:      spec.SimpleSchema{Type: c.Type, Format: c.Format},
			CommonValidations: validations(cons),
		}
		res := validate.NewHeaderValidator("X-H", h, strfmt.Default).Validate(value)
		return res.IsValid(), resText(res)
	case eNative:
		var e error
		switch c.Keyword {
		case sm.Minimum, sm.ExclusiveMinimum:
			if r := validate.MinimumNativeType("p", "query", value, cf, c.Keyword == sm.ExclusiveMinimum); r != nil {
				e = r
			}
		case sm.Maximum, sm.ExclusiveMaximum:
			if r := validate.MaximumNativeType("p", "query", value, cf, c.Keyword == sm.ExclusiveMaximum); r != nil {
				e = r
			}
		default:
			if r := validate.MultipleOfNativeType("p", "query", value, cf); r != nil {
				e = r
			}
		}
		return e == nil, errText(e)
	case eHelper:
		kind := sm.KindOf(value)
		vr, _ := sm.ValueRat(value)
		cr, _ := sm.Float64Rat(cf)
		var e error
		set := func(r interface{ Error() string }, isNil bool) {
			if !isNil {
				e = r
			}
		}
		excl := c.Keyword == sm.ExclusiveMinimum || c.Keyword == sm.ExclusiveMaximum
		switch {
		case sm.IsSigned(kind):
			d, k := vr.Num().Int64(), cr.Num().Int64()
			switch c.Keyword {
			case sm.Minimum, sm.ExclusiveMinimum:
				r := validate.MinimumInt("p", "query", d, k, excl)
				set(r, r == nil)
			case sm.Maximum, sm.ExclusiveMaximum:
				r := validate.MaximumInt("p", "query", d, k, excl)
				set(r, r == nil)
			default:
				r := validate.MultipleOfInt("p", "query", d, k)
				set(r, r == nil)
			}
		case sm.IsUnsigned(kind):
			d, k := vr.Num().Uint64(), cr.Num().Uint64()
			switch c.Keyword {
			case sm.Minimum, sm.ExclusiveMinimum:
				r := validate.MinimumUint("p", "query", d, k, excl)
				set(r, r == nil)
			case sm.Maximum, sm.ExclusiveMaximum:
				r := validate.MaximumUint("p", "query", d, k, excl)
				set(r, r == nil)
			default:
				r := validate.MultipleOfUint("p", "query", d, k)
				set(r, r == nil)
			}
		default:
			d, _ := sm.AsFloat64(value)
			switch c.Keyword {
			case sm.Minimum, sm.ExclusiveMinimum:
				r := validate.Minimum("p", "query", d, cf, excl)
				set(r, r == nil)
			case sm.Maximum, sm.ExclusiveMaximum:
				r := validate.Maximum("p", "query", d, cf, excl)
				set(r, r == nil)
			default:
				r := validate.MultipleOf("p", "query", d, cf)
				set(r, r == nil)
			}
		}
		return e == nil, errText(e)
	}
	panic("harness: unknown entry " + c.Entry)
}

// ---- the check ---------------------------------------------------------------

func excluded(reason string) ev.Outcome {
	return ev.Outcome{Excluded: []string{reason}, Classes: []string{"excluded"}}
}

func verdictName(b bool) string {
	if b {
		return "valid"
	}
	return "invalid"
}

func openDeviations() sm.Dev {
	d := sm.Dev{}
	for _, n := range []string{sm.DevIntTrunc, sm.DevMultAccept, sm.DevMultReject} {
		if _, ok := ev.KnownOpen(n); ok {
			d[n] = true
		}
	}
	return d
}

func member(list []string, s string) bool {
	for _, x := range list {
		if x == s {
			return true
		}
	}
	return false
}

func check(c Case) (out ev.Outcome) {
	defer func() {
		if r := recover(); r != nil {
			out = ev.Failf("panic: %v", r)
		}
	}()

	// ---- domain ----
	v, ok := sm.ParseRat(c.V)
	if !ok {
		return excluded("malformed-value")
	}
	if !member(entries, c.Entry) || !member(allCarriers, c.Carrier) {
		return excluded("malformed-case")
	}
	if absr(v).Cmp(limit) > 0 {
		return excluded("beyond-safe-integer-range")
	}
	if sm.FracDigits(v) < 0 || sm.FracDigits(v) > 6 {
		return excluded("more-than-6-fractional-digits")
	}
	switch c.Entry {
	case eSchema:
		if c.Type != "" && c.Type != "number" && c.Type != "integer" {
			return excluded("declared-type-not-numeric")
		}
	case eParam, eHeader:
		if c.Type != "number" && c.Type != "integer" {
			return excluded("declared-type-not-numeric")
		}
	default:
		if c.Type != "" || c.Format != "" {
			return excluded("helpers-have-no-declared-type")
		}
		if c.Keyword2 != "" {
			return excluded("helpers-take-one-constraint")
		}
	}
	int32lo, int32hi := rat(-two31), rat(two31-1)
	switch c.Type {
	case "integer":
		if c.Format != "" && c.Format != "int32" && c.Format != "int64" {
			return excluded("format-not-of-declared-type")
		}
		if !v.IsInt() {
			return excluded("value-outside-declared-type")
		}
		if c.Format == "int32" && (v.Cmp(int32lo) < 0 || v.Cmp(int32hi) > 0) {
			return excluded("value-outside-declared-format")
		}
	case "number":
		if c.Format != "" && c.Format != "float" && c.Format != "double" {
			return excluded("format-not-of-declared-type")
		}
	default:
		if c.Format != "" {
			return excluded("format-without-type")
		}
	}
	cons := []constraint{{keyword: c.Keyword, text: c.C}}
	if c.Keyword2 != "" {
		if !member(sm.NumericKeywords, c.Keyword2) || family(c.Keyword2) == family(c.Keyword) {
			return excluded("malformed-case")
		}
		cons = append(cons, constraint{keyword: c.Keyword2, text: c.C2})
	}
	for i := range cons {
		k := &cons[i]
		if !member(sm.NumericKeywords, k.keyword) {
			return excluded("malformed-case")
		}
		if k.r, ok = sm.ParseRat(k.text); !ok {
			return excluded("malformed-constraint")
		}
		if absr(k.r).Cmp(limit) > 0 {
			return excluded("beyond-safe-integer-range")
		}
		if sm.FracDigits(k.r) < 0 || sm.FracDigits(k.r) > 6 {
			return excluded("more-than-6-fractional-digits")
		}
		if k.f, ok = sm.FloatFor(k.text); !ok {
			return excluded("constraint-not-a-float64")
		}
		if k.keyword == sm.MultipleOf && k.r.Sign() <= 0 {
			return excluded("multipleOf-not-positive")
		}
		if c.Type == "integer" {
			if !k.r.IsInt() || (c.Format == "int32" && (k.r.Cmp(int32lo) < 0 || k.r.Cmp(int32hi) > 0)) {
				return excluded("bound-not-representable-in-declared-type")
			}
		}
	}
	k := cons[0].r
	if c.Carrier == sm.JSONNumber && c.Entry != eSchema && c.Entry != eNative {
		return excluded("json.Number-outside-schema-validation")
	}
	helperCannotTake := func(kind string) bool {
		return c.Entry == eHelper && sm.IsIntegerKind(kind) && (!k.IsInt() || (sm.IsUnsigned(kind) && k.Sign() < 0))
	}
	if helperCannotTake(c.Carrier) {
		return excluded("helper-signature-cannot-take-constraint")
	}
	primaryText := c.V
	if c.Carrier == sm.JSONNumber && c.Literal != "" {
		lv, ok := sm.ParseRat(c.Literal)
		if !ok || lv.Cmp(v) != 0 {
			return excluded("malformed-literal")
		}
		primaryText = c.Literal
	}
	primary, ok := sm.Carry(c.Carrier, primaryText)
	if !ok {
		return excluded("value-not-representable-in-carrier")
	}

	// ---- oracle ----
	want := true
	for _, kc := range cons {
		want = want && sm.Strict(kc.keyword, v, kc.r)
	}

	// ---- every carrier of the same number ----
	type obs struct {
		kind  string
		value interface{}
		got   bool
		det   string
		known []string
	}
	var all []obs
	all = append(all, obs{kind: c.Carrier, value: primary})
	for _, kind := range allCarriers {
		if kind == c.Carrier || (kind == sm.JSONNumber && c.Entry != eSchema && c.Entry != eNative) || helperCannotTake(kind) {
			continue
		}
		val, ok := sm.Carry(kind, c.V)
		if !ok {
			continue
		}
		all = append(all, obs{kind: kind, value: val})
	}
	dev := openDeviations()
	var fails []string
	for i := range all {
		o := &all[i]
		o.got, o.det = run(c, cons, o.value)
		if o.got == want {
			continue
		}
		// a deviation: is it exactly one of the listed findings?
		o.known = classify(c, cons, o.value, o.got, want, dev)
		if len(o.known) == 0 {
			fails = append(fails, fmt.Sprintf("%s(%v) -> %s, exact arithmetic says %s [%s]", o.kind, o.value, verdictName(o.got), verdictName(want), o.det))
		}
	}
	if len(fails) > 0 {
		// the metamorphic reading needs no oracle: name the carriers that disagree with each other
		var yes, no []string
		for _, o := range all {
			if o.got {
				yes = append(yes, o.kind)
			} else {
				no = append(no, o.kind)
			}
		}
		meta := ""
		if len(yes) > 0 && len(no) > 0 {
			meta = fmt.Sprintf("; carriers disagree with each other: valid for %v, invalid for %v", yes, no)
		}
		second := ""
		if c.Keyword2 != "" {
			second = fmt.Sprintf(" and %s=%s", c.Keyword2, c.C2)
		}
		return ev.Failf("%s %s=%s%s on %s (entry %s, type %q format %q): %s%s", c.V, c.Keyword, c.C, second, c.Carrier, c.Entry, c.Type, c.Format, strings.Join(fails, " | "), meta)
	}
	knownSet := map[string]bool{}
	for _, o := range all {
		for _, id := range o.known {
			knownSet[id] = true
		}
	}
	for id := range knownSet {
		out.Known = append(out.Known, id)
	}
	sort.Strings(out.Known)

	// ---- classes ----
	bigQuotient := false
	if c.Keyword == sm.MultipleOf {
		bigQuotient = absr(sm.Quotient(v, k)).Cmp(rat(1_000_000_000)) > 0
	}
	dyadic := func(r *big.Rat) bool {
		d := new(big.Int).Set(r.Denom())
		return new(big.Int).And(d, new(big.Int).Sub(d, big.NewInt(1))).Sign() == 0
	}
	intKind := sm.IsIntegerKind(c.Carrier)
	out.Nontrivial = (intKind && (!k.IsInt() || k.Sign() < 0 || k.Cmp(rat(two31)) > 0)) ||
		bigQuotient || (c.Carrier == "float32" && !dyadic(k)) || c.Carrier == sm.JSONNumber
	tf := c.Type
	if tf == "" {
		tf = "none"
	}
	if c.Format != "" {
		tf += "/" + c.Format
	}
	out.Classes = []string{"entry:" + c.Entry, "carrier:" + c.Carrier, "keyword:" + c.Keyword, "want:" + verdictName(want), "declared:" + tf,
		fmt.Sprintf("carriers-evaluated:%02d", len(all))}
	switch {
	case !k.IsInt():
		out.Classes = append(out.Classes, "constraint:fractional")
	case k.Sign() < 0:
		out.Classes = append(out.Classes, "constraint:negative-integer")
	case k.Sign() == 0:
		out.Classes = append(out.Classes, "constraint:zero")
	case k.Cmp(rat(two31)) > 0:
		out.Classes = append(out.Classes, "constraint:above-2^31")
	default:
		out.Classes = append(out.Classes, "constraint:small-positive-integer")
	}
	if !v.IsInt() {
		out.Classes = append(out.Classes, "value:fractional")
	}
	if bigQuotient {
		out.Classes = append(out.Classes, "multipleOf:quotient>1e9")
	}
	if v.Cmp(k) == 0 {
		out.Classes = append(out.Classes, "value=constraint")
	}
	if c.Keyword2 != "" {
		out.Classes = append(out.Classes, "two-keywords", "second:"+verdictName(sm.Strict(c.Keyword2, v, cons[1].r)))
	}
	if len(out.Known) > 0 {
		out.Classes = append(out.Classes, "known-finding-hit")
	}
	return out
}

// classify returns the ids of the open findings whose region contains this
// deviation and whose replica gives exactly the library's verdict; empty when
// the deviation is not a listed one.
func classify(c Case, cons []constraint, value interface{}, got, want bool, dev sm.Dev) []string {
	eff := value
	if num, isNum := value.(json.Number); isNum && c.Entry == eNative {
		if n, err := num.Int64(); err == nil {
			eff = n
		} else if f, err := num.Float64(); err == nil {
			eff = f
		}
	} else if isNum {
		switch c.Type {
		case "":
			// region: json.Number instance, schema declares no type: the library hands the value to the
			// string validator, which rejects it as "not a string" whatever the numeric keywords say
			if id, ok := ev.KnownOpen(mJSONUntyped); ok && !got && want {
				return []string{id}
			}
			return nil
		case "integer":
			n, err := num.Int64()
			if err != nil {
				// region: declared type integer, integer number written with a fraction or exponent part
				lit := string(num)
				if id, ok := ev.KnownOpen(mJSONLiteral); ok && !got && want && strings.ContainsAny(lit, ".eE") {
					return []string{id}
				}
				return nil
			}
			eff = n
		default:
			f, err := num.Float64()
			if err != nil {
				return nil
			}
			eff = f
		}
	}
	d := sm.Dev{}
	for n := range dev {
		d[n] = true
	}
	if c.Entry == eHelper {
		// the Int/Uint helper variants receive integer constraints: no conversion of a float64 happens
		delete(d, sm.DevIntTrunc)
	}
	touched := sm.Touched{}
	replica := true
	for _, k := range cons {
		r, ok := sm.NumericVerdict(k.keyword, eff, k.f, d, touched)
		if !ok {
			return nil
		}
		replica = replica && r
	}
	if replica != got || len(touched) == 0 {
		return nil
	}
	var ids []string
	for _, n := range touched.Names() {
		if id, ok := ev.KnownOpen(n); ok {
			ids = append(ids, id)
		}
	}
	return ids
}

func TestProp(t *testing.T)   { ev.Prop(t, false, gen, check) }
func TestReplay(t *testing.T) { ev.Replay(t, check) }
func FuzzC13(f *testing.F)    { ev.FuzzProp(f, false, gen, check) }
