// Package c08 decides property C08: a schema, parameter or header validator
// built without recycling is stateless — any number of validations, in any
// order, each returning what a freshly built validator returns.
package c08

import (
	"encoding/json"
	"fmt"
	"strings"
	"testing"

	"github.com/go-openapi/spec"
	"github.com/go-openapi/validate"
	"pgregory.net/rapid"

	"verif/internal/ev"
	"verif/internal/gen"
	"verif/internal/hook"
	"verif/internal/obs"
	"verif/internal/refmodel"
	"verif/internal/reg"
)

var registry = reg.New()

func TestMain(m *testing.M) {
	ev.Describe("one long-lived non-recycling validator per case (schema validator over the C01 grammar incl. $ref, tuples and composition; parameter and header validators over generated simple schemas with nested items), "+
		"then 5..40 Validate calls on values from a per-case pool of 2..6 values of different kinds, with repeats, in generated order; oracle: each call's (verdict, set of error messages, set of warnings) equals that of a validator "+
		"freshly built from a re-parsed copy of the definition, and equals the previous outcome for the same value. Non-trivial = at least two values of different JSON kinds, a value validated again after a different one, and at least one invalid outcome; distinct by content hash",
		"messages are compared as sets (order may legitimately follow map iteration)",
		"values are re-decoded from their JSON text for every call, so a validator that modified its input (property C12) would not be blamed here")
	ev.Main(m, "C08")
}

type Case struct {
	Kind   string   `json:"kind"` // schema | param | header
	Def    string   `json:"def"`
	Values []string `json:"values"`
	Order  []int    `json:"order"`
	Root   string   `json:"root,omitempty"`
}

func genCase(t *rapid.T) Case {
	var c Case
	c.Kind = rapid.SampledFrom([]string{"schema", "schema", "param", "header"}).Draw(t, "kind")
	nvals := rapid.IntRange(2, 6).Draw(t, "nvals")
	switch c.Kind {
	case "schema":
		o := gen.SchemaOpts{MaxDepth: 3, Formats: reg.Names, Defaults: rapid.Bool().Draw(t, "defaults")}
		if ev.Thorough() {
			o.MaxDepth = 4
		}
		doc := gen.Schema(t, o)
		c.Def = gen.Text(doc)
		for i := 0; i < nvals; i++ {
			v := gen.Text(gen.InstanceFor(t, doc, 12))
			if gen.UniformIndex(t, 4, "asjsonnumber") == 0 {
				v = tokNumber + v
			}
			c.Values = append(c.Values, v)
		}
		c.Root = rapid.SampledFrom([]string{"", "root"}).Draw(t, "root")
	default:
		d := gen.SimpleDef(t, 3)
		if c.Kind == "param" {
			d["name"] = "p"
			d["in"] = rapid.SampledFrom([]string{"query", "header", "path", "formData"}).Draw(t, "in")
			if rapid.Bool().Draw(t, "required") {
				d["required"] = true
			}
		}
		c.Def = gen.Text(d)
		for i := 0; i < nvals; i++ {
			c.Values = append(c.Values, gen.Text(gen.SimpleValue(t, d, 0)))
		}
	}
	steps := rapid.IntRange(5, 40).Draw(t, "steps")
	for i := 0; i < steps; i++ {
		c.Order = append(c.Order, rapid.IntRange(0, nvals-1).Draw(t, "which"))
	}
	return c
}

type validator interface {
	Validate(interface{}) *validate.Result
}

func build(c Case) (validator, error) {
	switch c.Kind {
	case "schema":
		sch, err := obs.ParseSchema(c.Def)
		if err != nil {
			return nil, err
		}
		return validate.NewSchemaValidator(sch, nil, c.Root, registry), nil
	case "param":
		p := new(spec.Parameter)
		if err := json.Unmarshal([]byte(c.Def), p); err != nil {
			return nil, err
		}
		return validate.NewParamValidator(p, registry), nil
	case "header":
		h := new(spec.Header)
		if err := json.Unmarshal([]byte(c.Def), h); err != nil {
			return nil, err
		}
		return validate.NewHeaderValidator("X-H", h, registry), nil
	}
	return nil, fmt.Errorf("unknown kind %q", c.Kind)
}

// tokNumber in front of a value text: its numbers are handed over as json.Number (a decoder with UseNumber)
const tokNumber = "\x00number:"

func valueText(text string) string { return strings.TrimPrefix(text, tokNumber) }

func run(v validator, text string) obs.Outcome {
	var data interface{}
	var err error
	if strings.HasPrefix(text, tokNumber) {
		data, err = obs.DecodeNumber(valueText(text))
	} else {
		data, err = obs.DecodeStd(text)
	}
	if err != nil {
		return obs.Outcome{Panic: "harness: value does not decode"}
	}
	var out obs.Outcome
	if msg, st := obs.Guard(func() { out = obs.FromResult(v.Validate(data)) }); msg != "" {
		return obs.Outcome{Panic: msg, Stack: st}
	}
	return out
}

func check(c Case) (out ev.Outcome) {
	var raw any
	if c.Kind == "schema" {
		raw, _ = refmodel.Decode([]byte(c.Def))
	}
	var long validator
	var err error
	if msg, _ := obs.Guard(func() { long, err = build(c) }); msg != "" {
		hook.ResetPools()
		if gen.DependencyMarshalPanic(msg, raw) {
			out.Excluded = append(out.Excluded, "schema hits KF-spec-marshal-unescaped-key (claimed under C01/C06)")
			return out
		}
		return ev.Failf("building the validator panicked: %s", msg)
	}
	if err != nil {
		return ev.Failf("harness: definition does not parse: %v", err)
	}
	fresh := map[int]obs.Outcome{}
	last := map[int]obs.Outcome{}
	kinds := map[string]bool{}
	invalid, repeatedAfterOther := false, false
	prev := -1
	seen := map[int]bool{}
	for step, i := range c.Order {
		if i < 0 || i >= len(c.Values) {
			continue
		}
		if _, ok := fresh[i]; !ok {
			var fv validator
			if msg, _ := obs.Guard(func() { fv, err = build(c) }); msg != "" || err != nil {
				hook.ResetPools()
				return ev.Failf("building a fresh validator failed: %s %v", msg, err)
			}
			fresh[i] = run(fv, c.Values[i])
		}
		got := run(long, c.Values[i])
		if got.Panic != "" || fresh[i].Panic != "" {
			hook.ResetPools()
			if gen.DependencyMarshalPanic(got.Panic+fresh[i].Panic, raw) {
				out.Excluded = append(out.Excluded, "schema hits KF-spec-marshal-unescaped-key (claimed under C01/C06)")
				return out
			}
			if got.Panic != fresh[i].Panic {
				return ev.Failf("step %d value %s: long-lived validator: %s; fresh validator: %s [%s]", step, c.Values[i], got, fresh[i], obs.ShortStack(got.Stack+fresh[i].Stack))
			}
			out.Excluded = append(out.Excluded, "validation panics for this input (a C06 matter)")
			return out
		}
		if !got.Same(fresh[i]) {
			return ev.Failf("step %d, value %s: long-lived validator returns %s but a freshly built validator returns %s", step, c.Values[i], got, fresh[i])
		}
		if p, ok := last[i]; ok && !got.Same(p) {
			return ev.Failf("step %d, value %s: repeating the call returns %s, earlier it returned %s", step, c.Values[i], got, p)
		}
		last[i] = got
		if !got.Valid {
			invalid = true
		}
		if v, err := refmodel.Decode([]byte(valueText(c.Values[i]))); err == nil {
			kinds[refmodel.Kind(v)] = true
		}
		if seen[i] && prev != i && prev >= 0 {
			repeatedAfterOther = true
		}
		seen[i] = true
		prev = i
	}
	out.Classes = append(out.Classes, "kind:"+c.Kind, fmt.Sprintf("invalid-seen:%v", invalid), fmt.Sprintf("value-kinds:%d", len(kinds)))
	out.Nontrivial = len(kinds) >= 2 && repeatedAfterOther && invalid
	return out
}

func TestProp(t *testing.T)   { ev.Prop(t, false, genCase, check) }
func TestReplay(t *testing.T) { ev.Replay(t, check) }
func FuzzC08(f *testing.F)    { ev.FuzzProp(f, false, genCase, check) }
