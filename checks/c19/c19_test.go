// Package c19 decides property C19: pruning removes exactly the members no
// schema describes.
package c19

import (
	"encoding/json"
	"fmt"
	"runtime/debug"
	"testing"

	"github.com/go-openapi/strfmt"
	"github.com/go-openapi/validate"
	"github.com/go-openapi/validate/post"
	"pgregory.net/rapid"

	"verif/internal/ev"
	"verif/internal/gen"
	"verif/internal/hook"
	"verif/internal/obs"
	"verif/internal/postmodel"
	"verif/internal/refmodel"
	"verif/internal/reg"
)

var registry = reg.New()

func TestMain(m *testing.M) {
	ev.Describe("(schema, instance) pairs; 80% from a constructive generator (internal/postmodel.Gen: objects built from properties, patternProperties, additionalProperties (absent, true, false, schema), "+
		"parts composed through allOf/anyOf/oneOf, schema and tuple items with additionalItems, array schemas wrapped in allOf/anyOf/oneOf, sibling-free local $ref; the instance is built with the schema and then receives "+
		"members with fresh names that no schema describes in every object where additionalProperties permits; the root is an object or (15%) an array; a quarter of the schemas also carry defaults), "+
		"20% from the shared grammar gen.Schema(no not, no dependencies) with gen.Satisfying; a case is in the domain when the root is an object or array that both the reference evaluator and the library accept. "+
		"Oracle: internal/postmodel (a member remains iff some applicable schema declares it in properties, matches it with a pattern property or has a schema-valued additionalProperties; one acceptable pruned state per choice of a valid anyOf alternative); "+
		"the state produced by post.Prune must be acceptable (survivors unchanged up to pruning inside them); when the schema has no anyOf/oneOf and the pruned data is still valid, validate+prune of the pruned data must leave it unchanged. "+
		"Non-trivial = at least one undescribed member was removed at depth >= 2 or inside an array element, and at least one described member was kept; distinct by content hash",
		"additionalProperties:true (or absent) permits but does not describe; a schema-valued additionalProperties (even {}) describes every member",
		"when several anyOf alternatives are valid, any of them may be the selected one (one selection per anyOf node and value)",
		"elements of an array that no items/additionalItems schema applies to have no applicable schema: all their members are removed",
		"pruning may make the data invalid (required, minProperties): the property does not claim otherwise; such cases are counted and the idempotence step is skipped",
		"a case in which the library and the reference evaluator disagree about the validity of the instance or of an anyOf/oneOf alternative is excluded: verdict agreement is property C01")
	ev.Main(m, "C19")
}

type Case struct {
	Schema   string `json:"schema"`
	Instance string `json:"instance"`
	Src      string `json:"src,omitempty"`
}

func genCase(t *rapid.T) Case {
	depth := 3
	if ev.Thorough() {
		depth = 4
	}
	// IntRange(0, 3) is close to uniform (wider ranges favour small values): 3/16 of the cases come from the shared grammar
	if rapid.IntRange(0, 3).Draw(t, "source")*4+rapid.IntRange(0, 3).Draw(t, "source") >= 13 {
		doc := gen.Schema(t, gen.SchemaOpts{MaxDepth: depth, ObjectBias: true, Defaults: rapid.IntRange(0, 3).Draw(t, "defaults") == 3, NoNot: true, NoDeps: true, ScalarEnum: true})
		return Case{Schema: gen.Text(doc), Instance: gen.Text(gen.Satisfying(t, doc)), Src: "grammar"}
	}
	doc, inst := postmodel.Gen(t, postmodel.GenOpts{Defaults: rapid.IntRange(0, 3).Draw(t, "defaults") == 3, Extras: true, ArrayRoot: true, MaxDepth: depth})
	return Case{Schema: gen.Text(doc), Instance: gen.Text(inst), Src: "constructive"}
}

// libValid asks the library whether value v satisfies sub-schema alt of the document root.
func libValid(root map[string]any, alt any, v any) (valid bool, panicMsg string) {
	am, ok := alt.(map[string]any)
	if !ok {
		return true, ""
	}
	doc := map[string]any{}
	if _, isRef := am["$ref"]; isRef {
		doc["allOf"] = []any{am}
	} else {
		for k, w := range am {
			doc[k] = w
		}
	}
	if defs, ok := root["definitions"]; ok {
		doc["definitions"] = defs
	}
	std, _ := obs.DecodeStd(gen.Text(v))
	o := obs.ViaValidator(gen.Text(doc), std, "", registry)
	return o.Valid, o.Panic
}

func bucket(n int) string {
	switch {
	case n <= 1:
		return fmt.Sprint(n)
	case n <= 3:
		return "2-3"
	default:
		return "4+"
	}
}

func check(c Case) (out ev.Outcome) {
	defer func() {
		if r := recover(); r != nil {
			hook.ResetPools()
			out = ev.Failf("panic: %v [%s]", r, obs.ShortStack(string(debug.Stack())))
		}
	}()
	schemaRaw, err := refmodel.Decode([]byte(c.Schema))
	if err != nil {
		return ev.Failf("harness: schema text does not decode: %v", err)
	}
	instRaw, err := refmodel.Decode([]byte(c.Instance))
	if err != nil {
		return ev.Failf("harness: instance text does not decode: %v", err)
	}
	src := c.Src
	if src == "" {
		src = "replay"
	}
	out.Classes = append(out.Classes, "src:"+src)
	rootSchema, ok := schemaRaw.(map[string]any)
	if !ok {
		out.Excluded = append(out.Excluded, "schema is not an object")
		return out
	}
	if k := refmodel.Kind(instRaw); k != "object" && k != "array" {
		out.Excluded = append(out.Excluded, "root instance is neither an object nor an array")
		return out
	}
	if postmodel.HasKeyword(schemaRaw, "dependencies") {
		out.Excluded = append(out.Excluded, "schema uses dependencies")
		return out
	}
	if !gen.NumbersInDomain(schemaRaw) || !gen.NumbersInDomain(instRaw) {
		out.Excluded = append(out.Excluded, "number outside the C01 domain")
		return out
	}
	formats := reg.Func(registry)
	if !(&refmodel.Evaluator{Root: schemaRaw, Formats: formats}).Valid(schemaRaw, instRaw) {
		out.Excluded = append(out.Excluded, "instance invalid per the reference evaluator")
		return out
	}

	// the library: validate (non-recycling, default options), then prune in place
	sch, err := obs.ParseSchema(c.Schema)
	if err != nil {
		return ev.Failf("harness: %v", err)
	}
	data, _ := obs.DecodeStd(c.Instance)
	var res *validate.Result
	if msg, st := obs.Guard(func() { res = validate.NewSchemaValidator(sch, nil, "", strfmt.Registry(registry)).Validate(data) }); msg != "" {
		hook.ResetPools()
		if gen.DependencyMarshalPanic(msg, schemaRaw) {
			out.Excluded = append(out.Excluded, "schema hits KF-spec-marshal-unescaped-key (claimed under C01/C06)")
			return out
		}
		return ev.Failf("panic while validating: %s [%s]", msg, obs.ShortStack(st))
	}
	if res == nil {
		return ev.Failf("nil result")
	}
	if !res.IsValid() {
		out.Excluded = append(out.Excluded, "library rejects an instance the reference evaluator accepts (a C01 matter)")
		return out
	}
	if msg, st := obs.Guard(func() { post.Prune(res) }); msg != "" {
		hook.ResetPools()
		return ev.Failf("panic in Prune: %s [%s]", msg, obs.ShortStack(st))
	}
	postText, err := json.Marshal(data)
	if err != nil {
		return ev.Failf("pruned state does not marshal: %v", err)
	}
	postRaw, err := refmodel.Decode(postText)
	if err != nil {
		return ev.Failf("harness: pruned state does not decode: %v", err)
	}

	// the model
	m := postmodel.New(schemaRaw, formats)
	facts := m.Accept(postmodel.Prune, instRaw, postRaw)
	if m.Err != nil {
		return ev.Failf("harness: model inconsistency: %v", m.Err)
	}
	if m.Overflow {
		out.Excluded = append(out.Excluded, "more than 64 combinations of anyOf alternatives")
		return out
	}
	// domain guard: the library must agree with the reference evaluator on every alternative the model looked at
	for _, a := range m.Alts {
		lv, pm := libValid(rootSchema, a.Alt, a.Value)
		if pm != "" {
			hook.ResetPools()
			out.Excluded = append(out.Excluded, "library panics on an anyOf/oneOf alternative taken alone")
			return out
		}
		if lv != a.Valid {
			out.Excluded = append(out.Excluded, "library and reference evaluator disagree on an anyOf/oneOf alternative (a C01 matter)")
			return out
		}
	}
	out.Classes = append(out.Classes, "in-domain", "root:"+refmodel.Kind(instRaw))
	if facts == nil {
		exp := postmodel.New(schemaRaw, formats).Expected(postmodel.Prune, instRaw)
		out.Fail = fmt.Sprintf("pruned state is not acceptable: after Prune the data is %s; one acceptable pruned state (first valid alternative everywhere): %s", refmodel.Canon(postRaw), refmodel.Canon(exp))
		return out
	}
	deepRemoval := false
	depths := map[int]bool{}
	inArr := false
	for _, r := range facts.Removals {
		depths[min(r.Depth, 4)] = true
		if r.InArray {
			inArr = true
		}
		if r.Depth >= 2 || r.InArray {
			deepRemoval = true
		}
	}
	for d := range depths {
		out.Classes = append(out.Classes, fmt.Sprintf("removal-depth:%d", d))
	}
	if inArr {
		out.Classes = append(out.Classes, "removal-inside-array-element")
	}
	out.Classes = append(out.Classes, "removed:"+bucket(len(facts.Removals)), "kept:"+bucket(facts.Kept), fmt.Sprintf("object-depth:%d", min(facts.MaxDepth, 4)))
	if facts.Ambiguous > 0 {
		out.Classes = append(out.Classes, "several-valid-anyOf-alternatives")
	}
	out.Counters = map[string]int64{"removed": int64(len(facts.Removals)), "members_kept": int64(facts.Kept), "objects": int64(facts.Objects)}
	out.Nontrivial = deepRemoval && facts.Kept >= 1

	// idempotence
	if postmodel.HasKeyword(schemaRaw, "anyOf", "oneOf") {
		out.Classes = append(out.Classes, "idempotence:not-claimed(anyOf/oneOf)")
		return out
	}
	sch2, _ := obs.ParseSchema(c.Schema)
	var res2 *validate.Result
	if msg, st := obs.Guard(func() { res2 = validate.NewSchemaValidator(sch2, nil, "", strfmt.Registry(registry)).Validate(data) }); msg != "" {
		hook.ResetPools()
		return ev.Failf("panic while validating the pruned data: %s [%s]", msg, obs.ShortStack(st))
	}
	refStill := (&refmodel.Evaluator{Root: schemaRaw, Formats: formats}).Valid(schemaRaw, postRaw)
	if !res2.IsValid() || !refStill {
		if res2.IsValid() != refStill {
			out.Classes = append(out.Classes, "idempotence:skipped(verdicts differ on the pruned data)")
		} else {
			out.Classes = append(out.Classes, "idempotence:skipped(pruned data invalid)")
		}
		return out
	}
	if msg, st := obs.Guard(func() { post.Prune(res2) }); msg != "" {
		hook.ResetPools()
		return ev.Failf("panic in the second Prune: %s [%s]", msg, obs.ShortStack(st))
	}
	again, err := json.Marshal(data)
	if err != nil {
		return ev.Failf("twice-pruned state does not marshal: %v", err)
	}
	againRaw, err := refmodel.Decode(again)
	if err != nil {
		return ev.Failf("harness: twice-pruned state does not decode: %v", err)
	}
	if !refmodel.Equal(postRaw, againRaw) {
		out.Fail = fmt.Sprintf("pruning is not idempotent: first prune gives %s, validating and pruning that again gives %s", refmodel.Canon(postRaw), refmodel.Canon(againRaw))
		return out
	}
	out.Classes = append(out.Classes, "idempotence:checked")
	return out
}

func TestProp(t *testing.T)   { ev.Prop(t, false, genCase, check) }
func TestReplay(t *testing.T) { ev.Replay(t, check) }
func FuzzC19(f *testing.F)    { ev.FuzzProp(f, false, genCase, check) }
