// Package c17 decides property C17: every rejection is explained by
// well-formed, correctly located errors.
package c17

import (
	"fmt"
	"sort"
	"strings"
	"testing"

	oaerrors "github.com/go-openapi/errors"
	"github.com/go-openapi/strfmt"
	"github.com/go-openapi/validate"
	"pgregory.net/rapid"

	"verif/internal/ev"
	"verif/internal/gen"
	"verif/internal/hook"
	"verif/internal/obs"
	"verif/internal/refmodel"
	"verif/internal/reg"
)

var registry = reg.New()

func TestMain(m *testing.M) {
	ev.Describe("(schema, instance, root path) triples: C01's grammar biased towards nesting through properties, patternProperties, additionalProperties and tuple items, root path in {\"\", \"root\", \"a.b\"}; "+
		"checks: (a) IsValid <=> no error; (b) AgainstSchema returns nil or a *errors.CompositeError with code 422 whose messages equal, as a set and without duplicates, those of a validator object on the same input; "+
		"(c) every *errors.Validation name is the root path or an extension of it; (d) for schemas without dependencies and without single-schema items, every field-level name belongs to the set of failing locations computed by the reference evaluator "+
		"(every location where a keyword of an evaluated subschema fails; a missing required member is parent + member). Non-trivial = the instance is invalid and some failing location lies at depth >= 2 below the root; distinct by content hash",
		"location rendering: root + '.' + member/index; locations are compared modulo empty segments, because the library renders the same place with or without a separator next to an empty root path or an empty member name",
		"error names under a dependency schema and under single-schema items are outside the location claim, as the property states")
	ev.Main(m, "C17")
}

type Case struct {
	Schema   string `json:"schema"`
	Instance string `json:"instance"`
	Root     string `json:"root"`
}

func genCase(t *rapid.T) Case {
	o := gen.SchemaOpts{MaxDepth: 3, ObjectBias: true, Formats: reg.Names}
	if ev.Thorough() {
		o.MaxDepth = 5
	}
	if rapid.IntRange(0, 3).Draw(t, "eligible") > 0 {
		o.NoDeps, o.TupleOnly = true, true
	}
	doc := gen.Schema(t, o)
	inst := gen.InstanceFor(t, doc, 16)
	return Case{Schema: gen.Text(doc), Instance: gen.Text(inst), Root: rapid.SampledFrom([]string{"", "root", "a.b", "50%", "%v"}).Draw(t, "root")}
}

// eligible tells whether location accuracy is claimed for this schema.
func eligible(v any) bool {
	switch x := v.(type) {
	case map[string]any:
		if _, ok := x["dependencies"]; ok {
			return false
		}
		if _, ok := x["items"].(map[string]any); ok {
			return false
		}
		for _, w := range x {
			if !eligible(w) {
				return false
			}
		}
	case []any:
		for _, w := range x {
			if !eligible(w) {
				return false
			}
		}
	}
	return true
}

// norm canonicalises a rendered location. With an empty root path the library
// renders the same location with or without a leading separator, and an empty
// member name then disappears altogether (".a", "a", "..0", "0"): there names are
// compared modulo empty segments. Below a non-empty root path names are compared as they are.
func norm(root, name string) string {
	if root != "" {
		// below a non-empty root path every member, the one with the empty name included, has one rendering
		return name
	}
	var segs []string
	for _, s := range strings.Split(name, ".") {
		if s != "" {
			segs = append(segs, s)
		}
	}
	return strings.Join(segs, ".")
}

func check(c Case) (out ev.Outcome) {
	schemaRaw, err := refmodel.Decode([]byte(c.Schema))
	if err != nil {
		return ev.Failf("harness: schema text does not decode: %v", err)
	}
	instRaw, err := refmodel.Decode([]byte(c.Instance))
	if err != nil {
		return ev.Failf("harness: instance text does not decode: %v", err)
	}
	if !gen.NumbersInDomain(schemaRaw) || !gen.NumbersInDomain(instRaw) {
		out.Excluded = append(out.Excluded, "number outside the C01 domain")
		return out
	}
	var rg strfmt.Registry = registry
	sch, err := obs.ParseSchema(c.Schema)
	if err != nil {
		return ev.Failf("harness: %v", err)
	}
	data, _ := obs.DecodeStd(c.Instance)
	var res *validate.Result
	if msg, st := obs.Guard(func() { res = validate.NewSchemaValidator(sch, nil, c.Root, rg).Validate(data) }); msg != "" {
		hook.ResetPools()
		if gen.DependencyMarshalPanic(msg, schemaRaw) {
			out.Excluded = append(out.Excluded, "schema hits KF-spec-marshal-unescaped-key (claimed under C01/C06)")
			return out
		}
		return ev.Failf("panic: %s [%s]", msg, obs.ShortStack(st))
	}
	if res == nil {
		return ev.Failf("nil result")
	}
	// (a)
	if res.IsValid() != (len(res.Errors) == 0) || res.HasErrors() == res.IsValid() {
		return ev.Failf("(a) IsValid()=%v but the result carries %d errors", res.IsValid(), len(res.Errors))
	}
	for _, e := range res.Errors {
		if e == nil {
			return ev.Failf("(a) nil error stored in the result")
		}
	}
	// (b)
	objSet := obs.Set(res.Errors)
	if len(objSet) != len(res.Errors) {
		return ev.Failf("(b) the result lists a message twice: %q", errTexts(res.Errors))
	}
	data2, _ := obs.DecodeStd(c.Instance)
	sch2, _ := obs.ParseSchema(c.Schema)
	var aerr error
	if msg, st := obs.Guard(func() { aerr = validate.AgainstSchema(sch2, data2, rg) }); msg != "" {
		hook.ResetPools()
		return ev.Failf("panic in AgainstSchema: %s [%s]", msg, obs.ShortStack(st))
	}
	if c.Root == "" {
		if (aerr == nil) != res.IsValid() {
			return ev.Failf("(b) AgainstSchema nil-ness (%v) disagrees with the validator object's verdict (valid=%v)", aerr == nil, res.IsValid())
		}
		if aerr != nil {
			ce, ok := aerr.(*oaerrors.CompositeError)
			if !ok {
				return ev.Failf("(b) AgainstSchema returned %T, not *errors.CompositeError", aerr)
			}
			if ce.Code() != 422 {
				return ev.Failf("(b) composite error code is %d, not 422", ce.Code())
			}
			got := obs.Set(ce.Errors)
			if len(got) != len(ce.Errors) {
				return ev.Failf("(b) composite error lists a message twice: %q", errTexts(ce.Errors))
			}
			if strings.Join(got, "\x00") != strings.Join(objSet, "\x00") {
				return ev.Failf("(b) composite error messages %q differ from the result's messages %q", got, objSet)
			}
		}
	} else if aerr != nil {
		if ce, ok := aerr.(*oaerrors.CompositeError); !ok || ce.Code() != 422 || len(ce.Errors) == 0 {
			return ev.Failf("(b) AgainstSchema returned a malformed error %T %v", aerr, aerr)
		}
	}
	// (c) and (d)
	// Open findings about verdicts (claimed under C01) change which keywords the
	// library evaluates; their exact replicas are switched on so that the
	// failing-location set is the one of the behaviour actually implemented.
	var dev refmodel.Deviations
	var devIDs []string
	if id, ok := ev.KnownOpen("null_skips_composition"); ok {
		dev.NullSkipsComposition = true
		devIDs = append(devIDs, id)
	}
	if id, ok := ev.KnownOpen("addlprops_id_schema"); ok {
		dev.AdditionalPropertiesIgnoresIDAndSchema = true
		devIDs = append(devIDs, id)
	}
	fails := map[string]struct{}{}
	strict := (&refmodel.Evaluator{Root: schemaRaw, Formats: reg.Func(rg), Fails: fails, Dev: dev}).ValidAt(schemaRaw, instRaw, c.Root)
	if len(devIDs) > 0 {
		pure := (&refmodel.Evaluator{Root: schemaRaw, Formats: reg.Func(rg)}).Valid(schemaRaw, instRaw)
		if pure != strict {
			out.Known = devIDs
		}
	}
	if strict != res.IsValid() {
		out.Excluded = append(out.Excluded, "verdict differs from the reference model (a C01 matter): locations not judged")
		return out
	}
	elig := eligible(schemaRaw)
	normFails := map[string]bool{}
	deep := false
	for f := range fails {
		n := norm(c.Root, f)
		normFails[n] = true
		rest := strings.TrimPrefix(strings.TrimPrefix(n, norm("", c.Root)), ".")
		if n != norm("", c.Root) && strings.Count(rest, ".") >= 1 {
			deep = true
		}
	}
	fieldLevel := 0
	for _, e := range res.Errors {
		ve, ok := e.(*oaerrors.Validation)
		if !ok {
			continue
		}
		if ve.Name == "" && c.Root != "" {
			// errors that carry no name at all (e.g. unknown format name) are not field-level
			continue
		}
		fieldLevel++
		if c.Root != "" && ve.Name != c.Root && !strings.HasPrefix(ve.Name, c.Root+".") {
			return ev.Failf("(c) error %q is named %q, which is neither the root path %q nor an extension of it", ve.Error(), ve.Name, c.Root)
		}
		if elig && !normFails[norm(c.Root, ve.Name)] {
			var fl []string
			for f := range normFails {
				fl = append(fl, f)
			}
			sort.Strings(fl)
			return ev.Failf("(d) error %q is named %q but no keyword fails at that location; failing locations per draft 4: %q", ve.Error(), ve.Name, fl)
		}
	}
	out.Classes = append(out.Classes, fmt.Sprintf("eligible-for-location:%v", elig), fmt.Sprintf("valid:%v", res.IsValid()), "root:"+c.Root, fmt.Sprintf("field-level-errors:%d", min(fieldLevel, 5)))
	if deep {
		out.Classes = append(out.Classes, "failing-location-at-depth>=2")
	}
	out.Nontrivial = !strict && !res.IsValid() && deep
	return out
}

func errTexts(es []error) []string {
	var out []string
	for _, e := range es {
		out = append(out, e.Error())
	}
	return out
}

func TestProp(t *testing.T)   { ev.Prop(t, false, genCase, check) }
func TestReplay(t *testing.T) { ev.Replay(t, check) }
func FuzzC17(f *testing.F)    { ev.FuzzProp(f, false, genCase, check) }
