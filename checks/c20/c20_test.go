// Package c20 decides property C20: results combine as ordered sets of
// messages with additive match counts.
//
// Generator: histories of AddErrors / AddWarnings / Merge / MergeAsErrors /
// MergeAsWarnings / Inc / in-place edits of an operand over a pool of 2..5
// results, some nil, some aliases of each other, some pre-filled through the
// public fields; message texts from a 6-word alphabet so duplicates abound;
// nil errors mixed in. Oracle: two first-occurrence-ordered lists of distinct
// messages plus a counter per result, compared after every step.
package c20

import (
	stderrors "errors"
	"fmt"
	"testing"

	oaerrors "github.com/go-openapi/errors"
	"github.com/go-openapi/validate"
	"pgregory.net/rapid"

	"verif/internal/ev"
	"verif/internal/hook"
	"verif/internal/scribble"
)

func TestMain(m *testing.M) {
	ev.Describe("rapid histories (3..40 steps) of AddErrors/AddWarnings/Merge/MergeAsErrors/MergeAsWarnings/Inc/operand edits over 2..5 results incl. nil, aliased and pre-filled ones; "+
		"non-trivial = at least 6 steps, a message that is offered to a result already holding it, and an operand mutated after it was merged; distinct by content hash of the history",
		"results are created through the public API (new(Result), struct literals with the exported fields) or, one slot in four, taken from the library's pool of results through the verif hook: such an operand is handed back to the pool when merged, the harness overwrites it at that instant, and the slot is dropped from the history",
		"typed-nil error values are not generated (the statement's 'ignores nils' is read as untyped nil)")
	ev.Main(m, "C20")
}

var words = []string{"alpha", "beta", "gamma", "delta", "IMPORTANT!eps", ""}

// An Op is one step of a history. Msgs use "\x00" for a nil error.
type Op struct {
	Kind string   `json:"kind"`
	Dst  int      `json:"dst"`
	Srcs []int    `json:"srcs,omitempty"`
	Msgs []string `json:"msgs,omitempty"`
	Idx  int      `json:"idx,omitempty"`
	Typ  int      `json:"typ,omitempty"` // how error values are built
}

type Slot struct {
	Nil     bool     `json:"nil,omitempty"`
	AliasOf int      `json:"alias_of"` // -1: own object
	Errs    []string `json:"errs,omitempty"`
	Warns   []string `json:"warns,omitempty"`
	Count   int      `json:"count,omitempty"`
	// Pooled: the result comes from the library's pool of results (as the validators' intermediate results do) and is
	// filled through AddErrors / AddWarnings / Inc; merging it into another result hands it back to the pool, where
	// the harness overwrites it: from then on the slot is gone
	Pooled bool `json:"pooled,omitempty"`
}

type Case struct {
	Slots []Slot `json:"slots"`
	Ops   []Op   `json:"ops"`
}

const nilMsg = "\x00"

func genMsgs(t *rapid.T, allowNil bool) []string {
	n := rapid.IntRange(0, 4).Draw(t, "nmsgs")
	out := make([]string, 0, n)
	for i := 0; i < n; i++ {
		if allowNil && rapid.IntRange(0, 5).Draw(t, "isnil") == 0 {
			out = append(out, nilMsg)
			continue
		}
		out = append(out, rapid.SampledFrom(words).Draw(t, "w"))
	}
	return out
}

func gen(t *rapid.T) Case {
	var c Case
	n := rapid.IntRange(2, 5).Draw(t, "slots")
	for i := 0; i < n; i++ {
		s := Slot{AliasOf: -1}
		switch k := rapid.IntRange(0, 9).Draw(t, "slotkind"); {
		case k == 0 && i > 0:
			s.Nil = true
		case k == 1 && i > 0:
			s.AliasOf = rapid.IntRange(0, i-1).Draw(t, "alias")
		case k <= 4:
			// pre-filled through the public fields, distinct messages (a well-formed result)
			s.Errs = dedup(genMsgs(t, false))
			s.Warns = dedup(genMsgs(t, false))
			s.Count = rapid.IntRange(0, 3).Draw(t, "count")
		}
		if !s.Nil && s.AliasOf < 0 && i > 0 {
			s.Pooled = rapid.IntRange(0, 3).Draw(t, "pooled") == 0
		}
		c.Slots = append(c.Slots, s)
	}
	steps := rapid.IntRange(3, 40).Draw(t, "steps")
	kinds := []string{"AddErrors", "AddWarnings", "Merge", "Merge", "MergeAsErrors", "MergeAsWarnings", "Inc", "EditErr", "EditWarn"}
	for i := 0; i < steps; i++ {
		op := Op{Kind: rapid.SampledFrom(kinds).Draw(t, "kind"), Dst: rapid.IntRange(0, n-1).Draw(t, "dst"), Typ: rapid.IntRange(0, 3).Draw(t, "typ")}
		switch op.Kind {
		case "AddErrors", "AddWarnings":
			op.Msgs = genMsgs(t, true)
		case "Merge", "MergeAsErrors", "MergeAsWarnings":
			k := rapid.IntRange(1, 3).Draw(t, "nsrc")
			for j := 0; j < k; j++ {
				// -1 is an untyped-nil *Result operand
				op.Srcs = append(op.Srcs, rapid.IntRange(-1, n-1).Draw(t, "src"))
			}
		case "EditErr", "EditWarn":
			op.Idx = rapid.IntRange(0, 3).Draw(t, "idx")
			op.Msgs = []string{rapid.SampledFrom(words).Draw(t, "w")}
		}
		c.Ops = append(c.Ops, op)
	}
	return c
}

func dedup(in []string) []string {
	var out []string
	for _, s := range in {
		found := false
		for _, o := range out {
			found = found || o == s
		}
		if !found {
			out = append(out, s)
		}
	}
	return out
}

type model struct {
	errs, warns []string
	count       int
}

func (m *model) add(list *[]string, msgs ...string) (dupOffered bool) {
	for _, s := range msgs {
		if s == nilMsg {
			continue
		}
		found := false
		for _, o := range *list {
			if o == s {
				found = true
				break
			}
		}
		if found {
			dupOffered = true
			continue
		}
		*list = append(*list, s)
	}
	return
}

type customErr struct{ s string }

func (c customErr) Error() string { return c.s }

func mkErr(msg string, typ int) error {
	if msg == nilMsg {
		return nil
	}
	switch typ {
	case 0:
		return stderrors.New(msg)
	case 1:
		return oaerrors.New(422, "%s", msg)
	case 3:
		// the same text under another code: still the same message
		return oaerrors.New(400, "%s", msg)
	default:
		return customErr{msg}
	}
}

func mkErrs(msgs []string, typ int) []error {
	out := make([]error, 0, len(msgs))
	for i, m := range msgs {
		out = append(out, mkErr(m, (typ+i)%4))
	}
	return out
}

func texts(es []error) []string {
	out := make([]string, 0, len(es))
	for _, e := range es {
		if e == nil {
			out = append(out, "<nil error stored>")
			continue
		}
		out = append(out, e.Error())
	}
	return out
}

func eq(a, b []string) bool {
	if len(a) != len(b) {
		return false
	}
	for i := range a {
		if a[i] != b[i] {
			return false
		}
	}
	return true
}

func check(c Case) (out ev.Outcome) {
	defer func() {
		if r := recover(); r != nil {
			out = ev.Failf("panic: %v", r)
		}
	}()
	hook.ResetPools()
	hook.SetRedeemHook(func(obj any) bool { scribble.Scribble(obj, true); return false })
	defer hook.ResetPools()
	defer hook.SetRedeemHook(nil)
	pooled := map[*validate.Result]bool{}
	n := len(c.Slots)
	res := make([]*validate.Result, n)
	mod := make([]*model, n)
	for i, s := range c.Slots {
		switch {
		case s.Nil:
		case s.AliasOf >= 0 && s.AliasOf < i:
			res[i], mod[i] = res[s.AliasOf], mod[s.AliasOf]
		case s.Pooled && hook.Enabled:
			res[i] = hook.BorrowResult()
			res[i].AddErrors(mkErrs(s.Errs, i)...)
			res[i].AddWarnings(mkErrs(s.Warns, i+1)...)
			for j := 0; j < s.Count; j++ {
				res[i].Inc()
			}
			mod[i] = &model{errs: dedup(s.Errs), warns: dedup(s.Warns), count: s.Count}
			pooled[res[i]] = true
		default:
			if len(s.Errs) == 0 && len(s.Warns) == 0 && s.Count == 0 {
				res[i] = new(validate.Result)
			} else {
				res[i] = &validate.Result{Errors: mkErrs(s.Errs, i), Warnings: mkErrs(s.Warns, i+1), MatchCount: s.Count}
			}
			mod[i] = &model{errs: append([]string(nil), s.Errs...), warns: append([]string(nil), s.Warns...), count: s.Count}
		}
	}
	merged := map[*model]bool{} // operands that have been merged into something
	dupOffered, mutatedAfterMerge, usedPooled := false, false, false
	var classes []string
	seenKinds := map[string]bool{}

	verify := func(step int, what string) string {
		for i := range res {
			r, m := res[i], mod[i]
			if r == nil {
				if !r.IsValid() || r.HasErrors() || r.HasWarnings() || r.HasErrorsOrWarnings() {
					return fmt.Sprintf("step %d (%s): nil result answers a query as if it held messages", step, what)
				}
				if r.AsError() != nil {
					return fmt.Sprintf("step %d (%s): nil result AsError() != nil", step, what)
				}
				continue
			}
			if ge := texts(r.Errors); !eq(ge, m.errs) {
				return fmt.Sprintf("step %d (%s): slot %d errors = %q, model %q", step, what, i, ge, m.errs)
			}
			if gw := texts(r.Warnings); !eq(gw, m.warns) {
				return fmt.Sprintf("step %d (%s): slot %d warnings = %q, model %q", step, what, i, gw, m.warns)
			}
			if r.MatchCount != m.count {
				return fmt.Sprintf("step %d (%s): slot %d MatchCount = %d, model %d", step, what, i, r.MatchCount, m.count)
			}
			if r.IsValid() != (len(m.errs) == 0) || r.HasErrors() != (len(m.errs) > 0) || r.HasWarnings() != (len(m.warns) > 0) ||
				r.HasErrorsOrWarnings() != (len(m.errs)+len(m.warns) > 0) {
				return fmt.Sprintf("step %d (%s): slot %d validity queries disagree with its messages (errs %q warns %q)", step, what, i, m.errs, m.warns)
			}
			ae := r.AsError()
			if (ae == nil) != (len(m.errs) == 0) {
				return fmt.Sprintf("step %d (%s): slot %d AsError nil-ness wrong", step, what, i)
			}
			if ae != nil {
				ce, ok := ae.(*oaerrors.CompositeError)
				if !ok || !eq(texts(ce.Errors), m.errs) {
					return fmt.Sprintf("step %d (%s): slot %d AsError does not list exactly the errors", step, what, i)
				}
			}
		}
		return ""
	}
	if msg := verify(-1, "initial"); msg != "" {
		return ev.Failf("%s", msg)
	}
	executed := 0
	for si, op := range c.Ops {
		if op.Dst < 0 || op.Dst >= n {
			continue
		}
		r, m := res[op.Dst], mod[op.Dst]
		if r == nil {
			continue // mutating a nil result is outside the API contract
		}
		executed++
		seenKinds[op.Kind] = true
		srcs := func() ([]*validate.Result, []*model) {
			var rs []*validate.Result
			var ms []*model
			for _, s := range op.Srcs {
				if s < 0 || s >= n {
					rs, ms = append(rs, nil), append(ms, nil)
					continue
				}
				rs, ms = append(rs, res[s]), append(ms, mod[s])
			}
			return rs, ms
		}
		switch op.Kind {
		case "AddErrors":
			if merged[m] && len(op.Msgs) > 0 {
				mutatedAfterMerge = true
			}
			r.AddErrors(mkErrs(op.Msgs, op.Typ)...)
			dupOffered = m.add(&m.errs, op.Msgs...) || dupOffered
		case "AddWarnings":
			if merged[m] && len(op.Msgs) > 0 {
				mutatedAfterMerge = true
			}
			r.AddWarnings(mkErrs(op.Msgs, op.Typ)...)
			dupOffered = m.add(&m.warns, op.Msgs...) || dupOffered
		case "Inc":
			if merged[m] {
				mutatedAfterMerge = true
			}
			r.Inc()
			m.count++
		case "Merge", "MergeAsErrors", "MergeAsWarnings":
			rs, ms := srcs()
			// a pooled operand is handed back by the merge: it can be merged once, and not into itself
			usable := true
			seenPooled := map[*validate.Result]bool{}
			for _, o := range rs {
				if o != nil && pooled[o] && (o == r || seenPooled[o]) {
					usable = false
				}
				seenPooled[o] = o != nil && pooled[o]
			}
			if !usable {
				executed--
				continue
			}
			var ret *validate.Result
			switch op.Kind {
			case "Merge":
				ret = r.Merge(rs...)
			case "MergeAsErrors":
				ret = r.MergeAsErrors(rs...)
			default:
				ret = r.MergeAsWarnings(rs...)
			}
			if ret != r {
				return ev.Failf("step %d: %s does not return its receiver", si, op.Kind)
			}
			for _, om := range ms {
				if om == nil {
					continue
				}
				// sequential semantics with live reads (an operand may be the receiver itself)
				switch op.Kind {
				case "Merge":
					dupOffered = m.add(&m.errs, append([]string(nil), om.errs...)...) || dupOffered
					dupOffered = m.add(&m.warns, append([]string(nil), om.warns...)...) || dupOffered
				case "MergeAsErrors":
					dupOffered = m.add(&m.errs, append([]string(nil), om.errs...)...) || dupOffered
					dupOffered = m.add(&m.errs, append([]string(nil), om.warns...)...) || dupOffered
				default:
					dupOffered = m.add(&m.warns, append([]string(nil), om.errs...)...) || dupOffered
					dupOffered = m.add(&m.warns, append([]string(nil), om.warns...)...) || dupOffered
				}
				m.count += om.count
				if om != m {
					merged[om] = true
				}
			}
			for _, o := range rs {
				if o != nil && pooled[o] {
					// consumed: the object is back in the pool (and overwritten)
					usedPooled = true
					for i := range res {
						if res[i] == o {
							res[i], mod[i] = nil, nil
						}
					}
				}
			}
		case "EditErr":
			// a later change to an operand made through its exported field
			if op.Idx < len(r.Errors) {
				if merged[m] {
					mutatedAfterMerge = true
				}
				r.Errors[op.Idx] = mkErr(op.Msgs[0], op.Typ)
				m.errs[op.Idx] = op.Msgs[0]
			}
		case "EditWarn":
			if op.Idx < len(r.Warnings) {
				if merged[m] {
					mutatedAfterMerge = true
				}
				r.Warnings[op.Idx] = mkErr(op.Msgs[0], op.Typ)
				m.warns[op.Idx] = op.Msgs[0]
			}
		}
		if msg := verify(si, op.Kind); msg != "" {
			return ev.Failf("%s", msg)
		}
	}
	for k := range seenKinds {
		classes = append(classes, "op:"+k)
	}
	if dupOffered {
		classes = append(classes, "duplicate-offered")
	}
	if mutatedAfterMerge {
		classes = append(classes, "operand-mutated-after-merge")
	}
	if usedPooled {
		classes = append(classes, "pooled-operand-merged")
	}
	for _, s := range c.Slots {
		if s.Nil {
			classes = append(classes, "has-nil-slot")
			break
		}
	}
	for _, s := range c.Slots {
		if s.AliasOf >= 0 {
			classes = append(classes, "has-alias")
			break
		}
	}
	out.Classes = classes
	out.Nontrivial = executed >= 6 && dupOffered && mutatedAfterMerge
	return out
}

func TestProp(t *testing.T)   { ev.Prop(t, false, gen, check) }
func TestReplay(t *testing.T) { ev.Replay(t, check) }
func FuzzC20(f *testing.F)    { ev.FuzzProp(f, false, gen, check) }
