// Package c16 decides property C16: parameter, header and items validators
// follow Swagger simple-schema semantics.
//
// Generator: a typed Go value tree is drawn first (scalars of every integer
// and float width, strings from plain / date / uuid / email pools, booleans,
// typed slices such as [][]int16 and []interface{} slices holding mixed and
// ragged content, nil and empty slices, nesting 0..4); the definition is then
// fitted to the value level by level (type, format, bounds placed at or next
// to the extreme values, multipleOf from the gcd, lengths and sizes at the
// extremes, patterns that match, enums listing the values), and with a small
// probability per constraint it is made to fail; with a small probability per
// level the declared type is made a non-matching one. A few cases hand over an
// untyped nil.
//
// Oracle: internal/simplemodel, an independent evaluator on exact rationals.
package c16

import (
	"fmt"
	"math/big"
	"math/bits"
	"regexp"
	"sort"
	"strings"
	"testing"

	"github.com/go-openapi/spec"
	"github.com/go-openapi/strfmt"
	"github.com/go-openapi/validate"
	"pgregory.net/rapid"

	"verif/internal/ev"
	sm "verif/internal/simplemodel"
)

func TestMain(m *testing.M) {
	ev.Describe("rapid cases: value tree first (all int/uint/float widths, strings from plain/date/uuid/email pools, bools, typed slices and []interface{} slices, ragged and mixed content, nil/empty slices, nesting 0..4), "+
		"then a definition fitted to it level by level (type, format, bounds at or next to the extremes, multipleOf from the gcd, lengths/sizes at the extremes, matching patterns, enums of the values) with a small probability per constraint of failing and per level of a non-matching type; "+
		"as spec.Parameter (query/header/path/formData, required/allowEmptyValue variations) or spec.Header; ~2% untyped nil values. "+
		"non-trivial = items-of-items in the definition, or a declared constraint group reached after an earlier declared group passed (enum after numeric, pattern after length, items after size), or a value of a non-matching kind; distinct by content hash",
		"a float64 stands for the decimal reading of its shortest round-trip text, a float32 for its exact binary value; numbers within ±(2^53-1), except 64-bit integers against type integer with enum / uniqueItems only (no bound, no multipleOf: C13 bounds those by 2^53)",
		"bounds are representable in the declared type/format by construction (integer bounds for type integer, inside int32 for format int32): the library diagnoses other bounds as definition errors",
		"type integer accepts integer kinds and integer-valued floats; type number accepts every numeric kind; format int32 restricts to the int32 range, float to the float32 range",
		"a required parameter that does not allow empty values rejects the string \"\" (Required && !AllowEmptyValue, no default declared); nothing else depends on Required/In",
		"[]uint8 is Go's []byte, which the library maps to string/byte by design (type.go:63): not generated, excluded on replay",
		"a nil element inside a []interface{} (a JSON null inside an array value) is never of the declared item type: the value is invalid unless the items declare nothing that an element could violate",
		"definitions carry no default; patterns compile; the registry is strfmt.Default and its verdict is taken as the meaning of date/uuid/email")
	ev.Main(m, "C16")
}

// Case is one generated input.
type Case struct {
	Target     string   `json:"target"` // param | header
	In         string   `json:"in,omitempty"`
	Required   bool     `json:"required,omitempty"`
	AllowEmpty bool     `json:"allowEmptyValue,omitempty"`
	Def        sm.Def   `json:"def"`
	Nil        bool     `json:"nil,omitempty"` // the value handed over is an untyped nil
	Value      sm.Value `json:"value"`
}

// ---- pools -------------------------------------------------------------------

var (
	plainStrings = []string{"", "a", "abc", "ABC", "héllo", "日本語", "ab c", "12345", "abcabc", "x-1", "Abc", "A"}
	dateStrings  = []string{"2020-01-31", "1999-12-01", "2024-02-29", "2020-13-45", "2020-1-1", "not-a-date"}
	uuidStrings  = []string{"a8098c1a-f86e-11da-bd1a-00112444be1e", "A8098C1A-F86E-11DA-BD1A-00112444BE1E", "a8098c1a-f86e-11da-bd1a", "zzzz"}
	emailStrings = []string{"user@example.com", "a.b@c.org", "user@", "@example.com", "plain"}
	patterns     = []string{"^a", "c$", "^[a-z]+$", "^[0-9]+$", "b", "^.{3}$", "(?i)^abc", `^\p{L}+$`, "-", "^[0-9a-f-]+$", "@", `^\d{4}-`}
	intKinds     = append(append([]string{}, sm.SignedKinds...), sm.UnsignedKinds...)
	simpleTypes  = []string{"string", "number", "integer", "boolean", "array"}
)

// uniformBits draws n unbiased bits. rapid's integer generators favour small
// values (useful for magnitudes, wrong for probabilities); its booleans are fair.
func uniformBits(t *rapid.T, n int, label string) int {
	v := 0
	for i := 0; i < n; i++ {
		v <<= 1
		if rapid.Bool().Draw(t, label) {
			v |= 1
		}
	}
	return v
}

// chance is true with probability pct/100 (and false when shrunk to the minimum).
func chance(t *rapid.T, pct int, label string) bool {
	return uniformBits(t, 7, label) >= 128-(pct*128+50)/100
}

// pick chooses uniformly.
func pick[T any](t *rapid.T, from []T, label string) T {
	return from[uniformBits(t, 10, label)%len(from)]
}

const (
	pViolate  = 9  // per declared constraint: chance (in %) that it is built to fail
	pMismatch = 6  // per definition level: chance (in %) of a deliberately non-matching type
	pRagged   = 6  // per dynamic element: chance (in %) of a value of another shape
	pOddEntry = 20 // per numeric enum: chance (in %) of Go-int / string entries
)

// ---- value generation ----------------------------------------------------------

type plan struct {
	family   string // int | float | string | bool | mixed
	leafKind string // fixed leaf kind of typed plans
	typed    bool
	strPool  []string
}

func genNumber(t *rapid.T, kind string) sm.Value {
	if sm.IsIntegerKind(kind) {
		lo, hi, _ := sm.KindRange(kind)
		var n int64
		switch uniformBits(t, 3, "imode") {
		case 0:
			n = rapid.SampledFrom([]int64{lo, hi, 1 << 31, -(1 << 31) - 1, 1<<31 - 1, 65, 97}).Draw(t, "iedge")
		case 1:
			n = rapid.Int64Range(lo, hi).Draw(t, "iany")
		default:
			n = rapid.Int64Range(-6, 130).Draw(t, "ismall")
		}
		if n < lo {
			n = lo
		}
		if n > hi {
			n = hi
		}
		return sm.Value{Kind: kind, Num: fmt.Sprint(n)}
	}
	var r *big.Rat
	switch uniformBits(t, 10, "fmode") % 10 {
	case 0, 1, 2, 3:
		r = big.NewRat(rapid.Int64Range(-6, 130).Draw(t, "fint"), 1)
	case 4, 5, 6:
		r = big.NewRat(rapid.Int64Range(-24, 520).Draw(t, "fquarter"), 4)
	case 7, 8:
		if kind == "float32" {
			r = big.NewRat(rapid.Int64Range(-24, 520).Draw(t, "feighth"), 8)
		} else {
			r = big.NewRat(rapid.Int64Range(-600, 13000).Draw(t, "fcent"), 100)
		}
	default:
		r = big.NewRat(rapid.SampledFrom([]int64{1 << 24, -(1 << 24), 1 << 31, 1<<31 - 1, -(1 << 31) - 1, 1000000}).Draw(t, "fbig"), 1)
		if _, ok := sm.Carry(kind, sm.MustText(r)); !ok {
			r = big.NewRat(int64(r.Sign())*(1<<24), 1) // not exact in a float32
		}
	}
	return sm.Value{Kind: kind, Num: sm.MustText(r)}
}

func genLeaf(t *rapid.T, p *plan, kind string) sm.Value {
	if kind == "" {
		switch p.family {
		case "int":
			kind = pick(t, append([]string{"uint8", "int16", "int32"}, intKinds...), "ikind")
		case "float":
			kind = pick(t, sm.FloatKinds, "fkind")
		case "string":
			kind = sm.KString
		case "bool":
			kind = sm.KBool
		default:
			kind = pick(t, []string{"int", "int8", "uint8", "uint16", "int64", "uint64", "float32", "float64", "float64", sm.KString, sm.KString, sm.KBool}, "mkind")
		}
	}
	switch kind {
	case sm.KString:
		return sm.Value{Kind: sm.KString, Str: rapid.SampledFrom(p.strPool).Draw(t, "str")}
	case sm.KBool:
		return sm.Value{Kind: sm.KBool, Bool: rapid.Bool().Draw(t, "bool")}
	}
	return genNumber(t, kind)
}

// build draws a value of nesting depth d; goType fixes its Go type when not "" / "interface".
func build(t *rapid.T, p *plan, d int, goType string) sm.Value {
	if strings.HasPrefix(goType, "[]") {
		return buildSlice(t, p, d, goType[2:])
	}
	if goType != "" && goType != "interface" {
		return genLeaf(t, p, goType)
	}
	if d <= 0 {
		return genLeaf(t, p, "")
	}
	// free choice of the slice type
	var elem string
	switch {
	case p.typed:
		elem = strings.Repeat("[]", d-1) + p.leafKind
	case d == 1 && chance(t, 25, "typedleafslice") && p.family != "mixed":
		k := genLeaf(t, p, "").Kind
		if k == "uint8" {
			k = "uint" // []uint8 is []byte
		}
		elem = k
	default:
		elem = "interface"
	}
	return buildSlice(t, p, d, elem)
}

func buildSlice(t *rapid.T, p *plan, d int, elem string) sm.Value {
	v := sm.Value{Kind: sm.KSlice, Elem: elem}
	maxLen := 3
	if d >= 3 {
		maxLen = 2
	}
	n := uniformBits(t, 10, "len") % (maxLen + 1)
	if n == 0 {
		v.Nil = chance(t, 30, "nilslice")
		return v
	}
	for i := 0; i < n; i++ {
		cd := d - 1
		if elem == "interface" && chance(t, pRagged, "ragged") {
			cd = rapid.IntRange(0, 2).Draw(t, "raggeddepth")
		}
		it := build(t, p, cd, elem)
		if elem == "interface" && chance(t, 4, "nilelement") {
			// a null element: it has no simple type, so it violates whatever the items declare
			it = sm.Value{Kind: sm.KNil}
		}
		if i > 0 && chance(t, 12, "repeat") {
			it = v.Items[rapid.IntRange(0, i-1).Draw(t, "repeatof")]
		}
		v.Items = append(v.Items, it)
	}
	return v
}

// ---- definition fitting ----------------------------------------------------------

func i64p(n int64) *int64 { return &n }

func ratOf(v sm.Value) *big.Rat {
	r, ok := v.Rat()
	if !ok {
		panic("harness: generated number does not parse: " + v.Num)
	}
	return r
}

func class(v sm.Value) string {
	switch {
	case sm.IsNumericKind(v.Kind):
		return "number"
	case v.Kind == sm.KString:
		return "string"
	case v.Kind == sm.KBool:
		return "boolean"
	}
	return "array"
}

// freeDef draws a definition that is not fitted to any value.
func freeDef(t *rapid.T, typ string, depth int) sm.Def {
	if typ == "" {
		typ = pick(t, simpleTypes, "freetype")
	}
	d := sm.Def{Type: typ}
	switch typ {
	case "string":
		d.Format = rapid.SampledFrom([]string{"", "", "date", "uuid", "email"}).Draw(t, "freeformat")
		if chance(t, 30, "freeminlen") {
			d.MinLength = i64p(int64(rapid.IntRange(0, 4).Draw(t, "n")))
		}
		if chance(t, 20, "freepattern") {
			d.Pattern = rapid.SampledFrom(patterns).Draw(t, "pattern")
		}
	case "integer", "number":
		if typ == "integer" {
			d.Format = rapid.SampledFrom([]string{"", "int32", "int64"}).Draw(t, "freeformat")
		} else {
			d.Format = rapid.SampledFrom([]string{"", "float", "double"}).Draw(t, "freeformat")
		}
		if chance(t, 30, "freemin") {
			d.Minimum = fmt.Sprint(rapid.IntRange(-5, 50).Draw(t, "n"))
		}
		if chance(t, 30, "freemax") {
			d.Maximum = fmt.Sprint(rapid.IntRange(0, 200).Draw(t, "n"))
		}
		if chance(t, 20, "freemult") {
			d.MultipleOf = fmt.Sprint(rapid.IntRange(1, 5).Draw(t, "n"))
		}
	case "array":
		if chance(t, 30, "freeminitems") {
			d.MinItems = i64p(int64(rapid.IntRange(0, 2).Draw(t, "n")))
		}
		if chance(t, 30, "freemaxitems") {
			d.MaxItems = i64p(int64(rapid.IntRange(0, 3).Draw(t, "n")))
		}
		d.UniqueItems = chance(t, 20, "freeunique")
		if depth < sm.MaxDepth {
			next := ""
			if depth+1 >= sm.MaxDepth {
				next = rapid.SampledFrom([]string{"string", "number", "integer", "boolean"}).Draw(t, "freeleaf")
			}
			it := freeDef(t, next, depth+1)
			d.Items = &it
		}
	}
	return d
}

// fit draws a definition for the values found at one level of the value tree.
// depth is the items depth of the definition being built (0 = the parameter/header itself).
func fit(t *rapid.T, vals []sm.Value, depth int) sm.Def {
	if len(vals) == 0 {
		typ := ""
		if depth >= sm.MaxDepth {
			typ = rapid.SampledFrom([]string{"string", "number", "integer", "boolean"}).Draw(t, "leaftype")
		}
		return freeDef(t, typ, depth)
	}
	natural := class(vals[rapid.IntRange(0, len(vals)-1).Draw(t, "lead")])
	if natural == "array" && depth >= sm.MaxDepth {
		natural = "string" // the definition cannot nest deeper: a non-matching leaf type
	}
	if chance(t, pMismatch, "mismatch") {
		var others []string
		for _, s := range simpleTypes {
			if s != natural && !(natural == "number" && s == "integer") && !(s == "array" && depth >= sm.MaxDepth) {
				others = append(others, s)
			}
		}
		return freeDef(t, pick(t, others, "wrongtype"), depth)
	}
	var mine []sm.Value
	for _, v := range vals {
		if class(v) == natural {
			mine = append(mine, v)
		}
	}
	if len(mine) == 0 { // only when the array class was replaced above
		return freeDef(t, natural, depth)
	}
	switch natural {
	case "number":
		return fitNumber(t, mine)
	case "string":
		return fitString(t, mine)
	case "boolean":
		d := sm.Def{Type: "boolean"}
		if chance(t, 25, "boolenum") {
			want := mine[0].Bool
			if chance(t, pViolate, "violate") {
				want = !want
			}
			d.Enum = []sm.Value{{Kind: sm.KBool, Bool: want}}
			if chance(t, 40, "boolboth") {
				d.Enum = append(d.Enum, sm.Value{Kind: sm.KBool, Bool: !want})
			}
		}
		return d
	}
	return fitArray(t, mine, depth)
}

func usableBound(r *big.Rat) bool {
	s, ok := sm.RatText(r)
	if !ok {
		return false
	}
	_, ok = sm.FloatFor(s)
	return ok
}

func fitNumber(t *rapid.T, vals []sm.Value) sm.Def {
	rats := make([]*big.Rat, len(vals))
	allInt := true
	lo, hi := ratOf(vals[0]), ratOf(vals[0])
	for i, v := range vals {
		rats[i] = ratOf(v)
		allInt = allInt && rats[i].IsInt()
		if rats[i].Cmp(lo) < 0 {
			lo = rats[i]
		}
		if rats[i].Cmp(hi) > 0 {
			hi = rats[i]
		}
	}
	d := sm.Def{Type: "number"}
	if allInt && chance(t, 60, "asinteger") {
		d.Type = "integer"
	}
	if !allInt && chance(t, 4, "integerforfraction") {
		d.Type = "integer" // a fractional float against type integer: non-matching
	}
	integer := d.Type == "integer"
	if integer {
		d.Format = rapid.SampledFrom([]string{"", "", "int32", "int64"}).Draw(t, "iformat")
	} else {
		d.Format = rapid.SampledFrom([]string{"", "", "float", "double"}).Draw(t, "nformat")
	}
	deltas := []*big.Rat{big.NewRat(0, 1), big.NewRat(0, 1), big.NewRat(1, 1), big.NewRat(2, 1), big.NewRat(10, 1)}
	if !integer {
		deltas = append(deltas, big.NewRat(1, 2), big.NewRat(1, 4), big.NewRat(1, 10))
	}
	bound := func(extreme *big.Rat, away int64, label string) (string, bool) {
		delta := rapid.SampledFrom(deltas).Draw(t, label+"delta")
		excl := chance(t, 30, label+"excl")
		c := new(big.Rat).Add(extreme, new(big.Rat).Mul(delta, big.NewRat(away, 1)))
		if chance(t, pViolate, label+"violate") {
			step := big.NewRat(1, 1)
			if !integer && chance(t, 50, label+"half") {
				step = big.NewRat(1, 2)
			}
			c = new(big.Rat).Add(extreme, new(big.Rat).Mul(step, big.NewRat(-away, 1)))
		}
		if integer {
			c = new(big.Rat).SetInt(new(big.Int).Div(c.Num(), c.Denom()))
		}
		lim := big.NewRat(sm.Limit, 1)
		if d.Format == "int32" {
			lim = big.NewRat(1<<31-1, 1)
		}
		if c.Cmp(lim) > 0 {
			c = lim
		}
		if c.Cmp(new(big.Rat).Neg(lim)) < 0 {
			c = new(big.Rat).Neg(lim)
		}
		if !usableBound(c) {
			c = new(big.Rat).SetInt(new(big.Int).Div(c.Num(), c.Denom()))
		}
		return sm.MustText(c), excl
	}
	if chance(t, 40, "min") {
		d.Minimum, d.ExclusiveMinimum = bound(lo, -1, "min")
	}
	if chance(t, 40, "max") {
		d.Maximum, d.ExclusiveMaximum = bound(hi, 1, "max")
	}
	if chance(t, 25, "mult") {
		var cands []*big.Rat
		if allInt {
			g := new(big.Int)
			for _, r := range rats {
				g.GCD(nil, nil, g, new(big.Int).Abs(r.Num()))
			}
			cands = append(cands, big.NewRat(1, 1))
			if g.Sign() > 0 && (d.Format != "int32" || g.Cmp(big.NewInt(1<<31-1)) <= 0) {
				cands = append(cands, new(big.Rat).SetInt(g), new(big.Rat).SetInt(g))
			}
			if !integer {
				cands = append(cands, big.NewRat(1, 2), big.NewRat(1, 4))
			}
			if chance(t, 2*pViolate, "multviolate") {
				cands = []*big.Rat{big.NewRat(2, 1), big.NewRat(3, 1), big.NewRat(5, 1), big.NewRat(7, 1)}
				if !integer {
					cands = append(cands, big.NewRat(3, 2), big.NewRat(3, 10))
				}
			}
		} else {
			cands = []*big.Rat{big.NewRat(1, 4), big.NewRat(1, 2), big.NewRat(1, 100), big.NewRat(1, 10), big.NewRat(1, 20), big.NewRat(1, 8)}
			if integer {
				cands = []*big.Rat{big.NewRat(1, 1), big.NewRat(2, 1)}
			}
		}
		d.MultipleOf = sm.MustText(rapid.SampledFrom(cands).Draw(t, "multiple"))
	}
	if chance(t, 22, "enum") {
		var entries []sm.Value
		add := func(e sm.Value) {
			for _, x := range entries {
				if sm.ValueEqual(x, e) && x.Kind == e.Kind {
					return
				}
			}
			entries = append(entries, e)
		}
		odd := chance(t, pOddEntry, "oddentries")
		drop := -1
		if chance(t, pViolate, "enumviolate") {
			drop = rapid.IntRange(0, len(vals)-1).Draw(t, "enumdrop")
		} else if odd && chance(t, 50, "oddinstead") {
			drop = 0 // the entry of another Go type stands where the value's own entry would be
		}
		for i, r := range rats {
			if drop >= 0 && r.Cmp(rats[drop]) == 0 {
				if odd {
					// an entry of another Go type next to the missing value
					switch {
					case sm.IsIntegerKind(vals[i].Kind) && r.Cmp(big.NewRat(33, 1)) >= 0 && r.Cmp(big.NewRat(126, 1)) <= 0:
						add(sm.Value{Kind: sm.KString, Str: string(rune(r.Num().Int64()))})
					case !r.IsInt():
						add(sm.Value{Kind: "int", Num: new(big.Int).Quo(r.Num(), r.Denom()).String()})
					}
				}
				continue
			}
			text := sm.MustText(r)
			if odd && r.IsInt() {
				add(sm.Value{Kind: "int", Num: text})
			} else if _, ok := sm.FloatFor(text); ok {
				add(sm.Value{Kind: "float64", Num: text})
			}
		}
		for i := rapid.IntRange(0, 2).Draw(t, "enumextra"); i > 0; i-- {
			e := sm.Value{Kind: "float64", Num: fmt.Sprint(rapid.IntRange(-3, 140).Draw(t, "extra"))}
			if drop >= 0 && sm.ValueEqual(e, vals[drop]) {
				continue
			}
			add(e)
		}
		if chance(t, 10, "enumstringentry") {
			add(sm.Value{Kind: sm.KString, Str: rapid.SampledFrom([]string{"A", "a", "1", "65"}).Draw(t, "enumstr")})
		}
		if len(entries) == 0 {
			entries = append(entries, sm.Value{Kind: "float64", Num: "-1000"})
		}
		d.Enum = entries
	}
	if chance(t, 4, "irrelevant") {
		d.MinLength = i64p(int64(rapid.IntRange(0, 9).Draw(t, "n")))
	}
	return d
}

func fitString(t *rapid.T, vals []sm.Value) sm.Def {
	d := sm.Def{Type: "string"}
	minLen, maxLen := int64(1<<30), int64(0)
	for _, v := range vals {
		n := int64(0)
		for range v.Str {
			n++
		}
		if n < minLen {
			minLen = n
		}
		if n > maxLen {
			maxLen = n
		}
	}
	// a format every value satisfies, if there is one
	var fits []string
	for _, f := range sm.StringFormats {
		all := true
		for _, v := range vals {
			all = all && strfmt.Default.Validates(f, v.Str)
		}
		if all {
			fits = append(fits, f)
		}
	}
	switch {
	case len(fits) > 0 && chance(t, 70, "format"):
		d.Format = rapid.SampledFrom(fits).Draw(t, "fmt")
	case chance(t, 12, "anyformat"):
		d.Format = rapid.SampledFrom(sm.StringFormats).Draw(t, "fmt")
	}
	if chance(t, 35, "minlen") {
		n := minLen - int64(rapid.IntRange(0, 1).Draw(t, "slack"))
		if chance(t, pViolate, "violate") {
			n = minLen + 1
		}
		if n < 0 {
			n = 0
		}
		d.MinLength = i64p(n)
	}
	if chance(t, 35, "maxlen") {
		n := maxLen + int64(rapid.IntRange(0, 1).Draw(t, "slack"))
		if chance(t, pViolate, "violate") && maxLen > 0 {
			n = maxLen - 1
		}
		d.MaxLength = i64p(n)
	}
	if chance(t, 30, "pattern") {
		var matching []string
		for _, p := range patterns {
			re := regexp.MustCompile(p)
			all := true
			for _, v := range vals {
				all = all && re.MatchString(v.Str)
			}
			if all {
				matching = append(matching, p)
			}
		}
		if len(matching) == 0 || chance(t, pViolate, "violate") {
			matching = patterns
		}
		d.Pattern = rapid.SampledFrom(matching).Draw(t, "pat")
	}
	if chance(t, 20, "enum") {
		drop := ""
		dropping := chance(t, pViolate, "violate")
		if dropping {
			drop = vals[rapid.IntRange(0, len(vals)-1).Draw(t, "drop")].Str
		}
		seen := map[string]bool{}
		for _, v := range vals {
			if (dropping && v.Str == drop) || seen[v.Str] {
				continue
			}
			seen[v.Str] = true
			d.Enum = append(d.Enum, sm.Value{Kind: sm.KString, Str: v.Str})
		}
		for i := rapid.IntRange(0, 2).Draw(t, "extra"); i > 0; i-- {
			s := rapid.SampledFrom([]string{"other", "ABC", "abc ", "Abc", "é"}).Draw(t, "extrastr")
			if (dropping && s == drop) || seen[s] {
				continue
			}
			seen[s] = true
			d.Enum = append(d.Enum, sm.Value{Kind: sm.KString, Str: s})
		}
		if chance(t, 8, "numberentry") {
			d.Enum = append(d.Enum, sm.Value{Kind: "float64", Num: "65"})
		}
		if len(d.Enum) == 0 {
			d.Enum = []sm.Value{{Kind: sm.KString, Str: "none of them"}}
		}
	}
	if chance(t, 4, "irrelevant") {
		d.Minimum = fmt.Sprint(rapid.IntRange(0, 9).Draw(t, "n"))
	}
	return d
}

// jsonLike rewrites a value the way a JSON document would carry it: numbers as
// float64, arrays as []interface{}.
func jsonLike(v sm.Value) (sm.Value, bool) {
	switch {
	case sm.IsNumericKind(v.Kind):
		text := sm.MustText(ratOf(v))
		if _, ok := sm.FloatFor(text); !ok {
			return v, false
		}
		return sm.Value{Kind: "float64", Num: text}, true
	case v.Kind == sm.KSlice:
		out := sm.Value{Kind: sm.KSlice, Elem: "interface"}
		for _, it := range v.Items {
			j, ok := jsonLike(it)
			if !ok {
				return v, false
			}
			out.Items = append(out.Items, j)
		}
		return out, true
	}
	return v, true
}

func fitArray(t *rapid.T, vals []sm.Value, depth int) sm.Def {
	d := sm.Def{Type: "array"}
	minLen, maxLen := int64(1<<30), int64(0)
	var children []sm.Value
	for _, v := range vals {
		n := int64(len(v.Items))
		if n < minLen {
			minLen = n
		}
		if n > maxLen {
			maxLen = n
		}
		children = append(children, v.Items...)
	}
	if chance(t, 35, "minitems") {
		n := minLen - int64(rapid.IntRange(0, 1).Draw(t, "slack"))
		if chance(t, pViolate, "violate") {
			n = minLen + 1
		}
		if n < 0 {
			n = 0
		}
		d.MinItems = i64p(n)
	}
	if chance(t, 35, "maxitems") {
		n := maxLen + int64(rapid.IntRange(0, 1).Draw(t, "slack"))
		if chance(t, pViolate, "violate") && maxLen > 0 {
			n = maxLen - 1
		}
		d.MaxItems = i64p(n)
	}
	d.UniqueItems = chance(t, 25, "unique")
	if depth < sm.MaxDepth && !chance(t, 3, "noitems") {
		it := fit(t, children, depth+1)
		d.Items = &it
	}
	if chance(t, 5, "arrayenum") {
		dropping := chance(t, pViolate, "violate")
		for i, v := range vals {
			if dropping && i == 0 {
				continue
			}
			if j, ok := jsonLike(v); ok {
				d.Enum = append(d.Enum, j)
			}
		}
		d.Enum = append(d.Enum, sm.Value{Kind: sm.KSlice, Elem: "interface", Items: []sm.Value{{Kind: sm.KString, Str: "no such element"}}})
	}
	return d
}

func gen(t *rapid.T) Case {
	var c Case
	c.Target = pick(t, []string{"param", "header"}, "target")
	if c.Target == "param" {
		c.In = pick(t, []string{"query", "header", "path", "formData"}, "in")
		c.Required = c.In == "path" || rapid.Bool().Draw(t, "required")
		if c.In == "query" || c.In == "formData" {
			c.AllowEmpty = chance(t, 30, "allowempty")
		}
	}
	if chance(t, 2, "nil") {
		c.Nil = true
		c.Def = freeDef(t, "", 0)
		return c
	}
	if chance(t, 3, "bigints") {
		c.Value, c.Def = bigIntegers(t)
		return c
	}
	p := &plan{}
	p.family = pick(t, []string{"int", "int", "int", "int", "int", "int", "int", "float", "float", "float", "string", "string", "string", "string", "string", "bool", "mixed", "mixed", "mixed"}, "family")
	p.strPool = plainStrings
	switch uniformBits(t, 10, "pool") % 10 {
	case 0, 1:
		p.strPool = dateStrings
	case 2:
		p.strPool = uuidStrings
	case 3:
		p.strPool = emailStrings
	case 4:
		p.strPool = append(append(append([]string{}, plainStrings...), dateStrings...), emailStrings...)
	}
	depth := pick(t, []int{0, 0, 0, 0, 1, 1, 1, 1, 1, 2, 2, 2, 3, 3, 4}, "depth")
	p.typed = p.family != "mixed" && depth > 0 && chance(t, 60, "typed")
	if p.typed {
		p.leafKind = genLeaf(t, p, "").Kind
		if p.leafKind == "uint8" {
			p.leafKind = "uint32" // []uint8 is []byte
		}
	}
	c.Value = build(t, p, depth, "")
	c.Def = fit(t, []sm.Value{c.Value}, 0)
	return c
}

// bigIntegers draws 64-bit integers beyond 2^53 (where float64 no longer tells neighbours apart) against
// type integer with an enum and, for slices, uniqueItems: no bound, no multipleOf (those are C13's ground, and
// their constraints are bounded by 2^53 there).
func bigIntegers(t *rapid.T) (sm.Value, sm.Def) {
	kind := pick(t, []string{"int64", "uint64", "int", "uint"}, "bigkind")
	pool := []string{"9007199254740992", "9007199254740993", "9007199254740994", "9223372036854775806", "9223372036854775807"}
	num := func() sm.Value {
		n := pick(t, pool, "bignum")
		if sm.IsSigned(kind) && chance(t, 30, "bigneg") {
			n = "-" + n
		}
		return sm.Value{Kind: kind, Num: n}
	}
	leaf := sm.Def{Type: "integer", Format: pick(t, []string{"", "int64"}, "bigformat")}
	if chance(t, 70, "bigenum") {
		// members as a decoded JSON document gives them: float64, here exactly representable ones
		for _, m := range []string{"9007199254740992", "9007199254740994", "-9007199254740992", "9223372036854775808"} {
			if chance(t, 50, "bigmember") {
				leaf.Enum = append(leaf.Enum, sm.Value{Kind: "float64", Num: m})
			}
		}
	}
	if chance(t, 40, "bigscalar") {
		return num(), leaf
	}
	elem := pick(t, []string{kind, "interface"}, "bigelem")
	v := sm.Value{Kind: sm.KSlice, Elem: elem}
	for i, n := 0, 1+uniformBits(t, 2, "bigcount"); i < n; i++ {
		v.Items = append(v.Items, num())
	}
	return v, sm.Def{Type: "array", UniqueItems: chance(t, 70, "bigunique"), Items: &leaf}
}

// bigIntegerCase recognises the cases bigIntegers draws (and nothing broader): integers of 64-bit kinds against
// type integer with no bound and no multipleOf at any level.
func bigIntegerCase(d *sm.Def, v sm.Value) bool {
	if d == nil {
		return false
	}
	if v.Kind == sm.KSlice {
		if d.Type != "array" || d.Items == nil || d.Minimum+d.Maximum+d.MultipleOf != "" {
			return false
		}
		for _, it := range v.Items {
			if !bigIntegerCase(d.Items, it) {
				return false
			}
		}
		return true
	}
	switch v.Kind {
	case "int64", "uint64", "int", "uint":
		return d.Type == "integer" && (d.Format == "" || d.Format == "int64") && d.Minimum+d.Maximum+d.MultipleOf == ""
	}
	return false
}

// ---- running the library ---------------------------------------------------------

func mustFloat(text string) *float64 {
	f, ok := sm.FloatFor(text)
	if !ok {
		panic("harness: bound is not a float64: " + text)
	}
	return &f
}

func commonValidations(d *sm.Def) spec.CommonValidations {
	cv := spec.CommonValidations{
		ExclusiveMaximum: d.ExclusiveMaximum, ExclusiveMinimum: d.ExclusiveMinimum,
		MaxLength: d.MaxLength, MinLength: d.MinLength, Pattern: d.Pattern,
		MaxItems: d.MaxItems, MinItems: d.MinItems, UniqueItems: d.UniqueItems,
	}
	if d.Maximum != "" {
		cv.Maximum = mustFloat(d.Maximum)
	}
	if d.Minimum != "" {
		cv.Minimum = mustFloat(d.Minimum)
	}
	if d.MultipleOf != "" {
		cv.MultipleOf = mustFloat(d.MultipleOf)
	}
	for _, e := range d.Enum {
		g, err := e.Go()
		if err != nil {
			panic("harness: enum entry: " + err.Error())
		}
		cv.Enum = append(cv.Enum, g)
	}
	return cv
}

func simpleSchema(d *sm.Def) spec.SimpleSchema {
	s := spec.SimpleSchema{Type: d.Type, Format: d.Format}
	if d.Type == "array" {
		s.CollectionFormat = "csv"
	}
	if d.Items != nil {
		s.Items = &spec.Items{SimpleSchema: simpleSchema(d.Items), CommonValidations: commonValidations(d.Items)}
	}
	return s
}

func validateWith(c Case, data interface{}) *validate.Result {
	if c.Target == "header" {
		h := &spec.Header{SimpleSchema: simpleSchema(&c.Def), CommonValidations: commonValidations(&c.Def)}
		return validate.NewHeaderValidator("X-Rate", h, strfmt.Default).Validate(data)
	}
	p := &spec.Parameter{
		ParamProps:        spec.ParamProps{Name: "p", In: c.In, Required: c.Required, AllowEmptyValue: c.AllowEmpty},
		SimpleSchema:      simpleSchema(&c.Def),
		CommonValidations: commonValidations(&c.Def),
	}
	return validate.NewParamValidator(p, strfmt.Default).Validate(data)
}

func registry(format, s string) (known, ok bool) {
	if !strfmt.Default.ContainsName(format) {
		return false, false
	}
	return true, strfmt.Default.Validates(format, s)
}

// ---- the check ---------------------------------------------------------------------

func excluded(reason string) ev.Outcome {
	return ev.Outcome{Excluded: []string{reason}, Classes: []string{"excluded"}}
}

func defDepth(d *sm.Def) int {
	n := 0
	for x := d.Items; x != nil; x = x.Items {
		n++
	}
	return n
}

func kindsOf(v sm.Value, into map[string]bool) {
	if v.Kind == sm.KSlice {
		into["[]"+strings.TrimLeft(v.Elem, "[]")] = true
		if v.Nil {
			into["nil-slice"] = true
		} else if len(v.Items) == 0 {
			into["empty-slice"] = true
		}
		for _, it := range v.Items {
			kindsOf(it, into)
		}
		return
	}
	into[v.Kind] = true
}

func resText(r *validate.Result) string {
	if r == nil {
		return "<nil result>"
	}
	var parts []string
	for _, e := range r.Errors {
		parts = append(parts, e.Error())
	}
	return strings.Join(parts, "; ")
}

func check(c Case) (out ev.Outcome) {
	defer func() {
		if r := recover(); r != nil {
			out = ev.Failf("panic: %v", r)
		}
	}()
	if c.Target != "param" && c.Target != "header" {
		return excluded("malformed-case")
	}
	if c.Target == "param" {
		switch c.In {
		case "query", "header", "path", "formData":
		default:
			return excluded("malformed-case")
		}
	}
	if reason := c.Def.InDomain(); reason != "" {
		return excluded("definition:" + reason)
	}
	where := c.Target
	if c.Target == "param" {
		where += ":" + c.In
	}
	if c.Nil {
		res := validateWith(c, nil)
		if res != nil {
			return ev.Failf("a nil value was validated: result %q", resText(res))
		}
		return ev.Outcome{Classes: []string{"target:" + where, "value:nil", "type:" + c.Def.Type}}
	}
	big := false
	if reason := sm.ValueInDomain(c.Value); reason != "" {
		if reason != "beyond-safe-integer-range" || !bigIntegerCase(&c.Def, c.Value) {
			return excluded("value:" + reason)
		}
		big = true
	}
	data, err := c.Value.Go()
	if err != nil {
		return excluded("value:malformed")
	}
	opts := sm.Opts{
		RequiredNonEmpty: c.Target == "param" && c.Required && !c.AllowEmpty,
		Header:           c.Target == "header",
		FormatOK:         registry,
	}
	want, tr := sm.Eval(&c.Def, c.Value, opts)
	if len(tr.Excluded) > 0 {
		return ev.Outcome{Excluded: tr.Excluded, Classes: []string{"excluded"}}
	}
	res := validateWith(c, data)
	if res == nil {
		return ev.Failf("a non-nil value was not validated (nil result); the model says %v", want)
	}
	got := res.IsValid()
	if got != want {
		// a deviation: is it exactly the effect of listed findings? Look for the smallest set of open
		// deviation modes that reproduces the library's verdict with every member of the set at work
		// (a listed finding that has been repaired in the meantime then simply never takes part).
		// Array-valued enum members against typed Go slices: the statement does not say in which Go
		// representation an array enum member is to be compared ([]string{"a"} against the decoded
		// JSON member []interface{}{"a"}); the library requires identical Go types. Such cases are
		// outside the domain and counted.
		{
			o2 := opts
			o2.Dev = sm.Dev{sm.DevEnumTypedSlice: true}
			if replica, tr2 := sm.Eval(&c.Def, c.Value, o2); replica == got && tr2.Touched[sm.DevEnumTypedSlice] {
				return ev.Outcome{Excluded: []string{"array-valued enum member compared with a differently typed Go slice"}, Classes: []string{"excluded"}}
			}
		}
		var open []string
		for _, n := range sm.AllDeviations {
			if _, ok := ev.KnownOpen(n); ok {
				open = append(open, n)
			}
		}
		explained := false
		var subsets []int
		for m := 1; m < 1<<len(open); m++ {
			subsets = append(subsets, m)
		}
		sort.SliceStable(subsets, func(i, j int) bool { return bits.OnesCount(uint(subsets[i])) < bits.OnesCount(uint(subsets[j])) })
		for _, m := range subsets {
			dev := sm.Dev{}
			for i, n := range open {
				if m&(1<<i) != 0 {
					dev[n] = true
				}
			}
			o2 := opts
			o2.Dev = dev
			replica, tr2 := sm.Eval(&c.Def, c.Value, o2)
			if len(tr2.Touched) != len(dev) {
				continue
			}
			if len(tr2.Excluded) > 0 {
				// past the listed deviations the evaluation meets a pair for which the verdict is not defined
				return ev.Outcome{Excluded: tr2.Excluded, Classes: []string{"excluded"}}
			}
			if replica != got {
				continue
			}
			explained = true
			for _, n := range tr2.Touched.Names() {
				id, _ := ev.KnownOpen(n)
				out.Known = append(out.Known, id)
			}
			sort.Strings(out.Known)
			break
		}
		if !explained {
			verdict := map[bool]string{true: "valid", false: "invalid"}
			return ev.Failf("%s: library says %s [%s], simple-schema semantics say %s (first failing group: %q)", where, verdict[got], resText(res), verdict[want], tr.Reason)
		}
	}

	// ---- classes ----
	kinds := map[string]bool{}
	kindsOf(c.Value, kinds)
	var ks []string
	for k := range kinds {
		ks = append(ks, "kind:"+k)
	}
	sort.Strings(ks)
	out.Classes = append(out.Classes, ks...)
	out.Classes = append(out.Classes, "target:"+where, "type:"+c.Def.Type, fmt.Sprintf("items-depth:%d", defDepth(&c.Def)))
	if big {
		out.Classes = append(out.Classes, "integers-beyond-2^53")
	}
	if want {
		out.Classes = append(out.Classes, "want:valid")
	} else {
		out.Classes = append(out.Classes, "want:invalid", "first-failing:"+stripLevel(tr.Reason))
		if strings.HasPrefix(tr.Reason, "items[") {
			out.Classes = append(out.Classes, "fails-inside-items")
		}
	}
	if tr.Mismatch {
		out.Classes = append(out.Classes, "non-matching-kind")
	}
	if tr.LaterGroup {
		out.Classes = append(out.Classes, "later-group-after-passing-group")
	}
	if len(out.Known) > 0 {
		out.Classes = append(out.Classes, "known-finding-hit")
	}
	out.Nontrivial = defDepth(&c.Def) >= 2 || tr.LaterGroup || tr.Mismatch
	return out
}

func stripLevel(reason string) string {
	if i := strings.Index(reason, "]:"); i >= 0 {
		return reason[i+2:]
	}
	return reason
}

func TestProp(t *testing.T)   { ev.Prop(t, false, gen, check) }
func TestReplay(t *testing.T) { ev.Replay(t, check) }
func FuzzC16(f *testing.F)    { ev.FuzzProp(f, false, gen, check) }
