// Package c04 decides property C04: object recycling never changes an
// outcome, whatever came before.
package c04

import (
	"encoding/json"
	"fmt"
	"strings"
	"testing"

	oaerrors "github.com/go-openapi/errors"
	"github.com/go-openapi/spec"
	"github.com/go-openapi/strfmt"
	"github.com/go-openapi/validate"
	"pgregory.net/rapid"

	"verif/internal/ev"
	"verif/internal/gen"
	"verif/internal/hook"
	"verif/internal/obs"
	"verif/internal/reg"
	"verif/internal/scribble"
)

var registry = reg.New()

func TestMain(m *testing.M) {
	ev.Describe("call histories (5..40 steps) mixing AgainstSchema, one-shot recycling schema / parameter / header validators and validate.Spec over a per-case library of schemas, instances (incl. nil data and a json.Number that cannot be converted), "+
		"simple definitions, values and documents (valid and rule-breaking); per case a scribble polarity is drawn (every object handed back to a pool is overwritten at that instant with zero values or with poison). "+
		"Oracle: each step's (verdict, set of error messages, set of warnings) equals the outcome of the same call computed beforehand from freshly reset pools with recycling off "+
		"(public non-recycling option for schema/parameter/header validators; pools in swallow mode — nothing is ever reused — for every entry point incl. Spec); errors returned earlier are re-read at the end and must be unchanged; "+
		"under the validatedebug build any 'should have been redeemed/allocated' pool panic is a violation. "+
		"Non-trivial = at least 3 steps over at least 2 entry points, an early-exit step (nil data, failed number conversion, invalid verdict) followed by a step that borrows the same validator types, and at least one invalid verdict; distinct by content hash",
		"the redeem hook (build tag verif) is the only instrumentation; scribbling writes only the redeemed object's own fields (and the error-list backing arrays a Result owns)",
		"Spec steps are limited to two per history and a quarter of the histories (each costs about 0.3 s)")
	ev.Main(m, "C04")
}

type Step struct {
	Kind     string `json:"kind"` // against | validator | param | header | spec
	A        int    `json:"a"`    // schema / definition / document index
	B        int    `json:"b"`    // instance / value index
	Continue bool   `json:"continue,omitempty"`
}

type Case struct {
	Schemas []string `json:"schemas"`
	Data    []string `json:"data"` // JSON text, or the tokens below
	Params  []string `json:"params"`
	Headers []string `json:"headers"`
	PValues []string `json:"pvalues"`
	HValues []string `json:"hvalues"`
	Docs    []string `json:"docs"`
	Steps   []Step   `json:"steps"`
	Poison  bool     `json:"poison"`
	// NoScribble leaves redeemed objects untouched: scribbling resets maps and pointers, which would hide
	// state that a constructor forgets to reset; a third of the histories therefore run on the pools as they are.
	NoScribble bool `json:"no_scribble,omitempty"`
}

const (
	tokNil       = "\x00nil"
	tokBadNumber = "\x00json.Number(\"1e999\")"
	tokNumber    = "\x00number:" // prefix: decode the rest with json.Number
)

func genCase(t *rapid.T) Case {
	var c Case
	c.Poison = rapid.Bool().Draw(t, "poison")
	c.NoScribble = rapid.IntRange(0, 2).Draw(t, "noscribble") == 0
	ns := rapid.IntRange(1, 3).Draw(t, "nschemas")
	var docs []map[string]any
	for i := 0; i < ns; i++ {
		// half of the schemas carry defaults on their properties and are biased towards objects: the bookkeeping of
		// "required but created from a default" is state an object validator must not carry from one use to the next
		withDefaults := rapid.Bool().Draw(t, "withdefaults")
		d := gen.Schema(t, gen.SchemaOpts{MaxDepth: 3, Formats: reg.Names, Defaults: withDefaults, ObjectBias: withDefaults})
		docs = append(docs, d)
		c.Schemas = append(c.Schemas, gen.Text(d))
	}
	nd := rapid.IntRange(2, 5).Draw(t, "ndata")
	for i := 0; i < nd; i++ {
		switch rapid.IntRange(0, 9).Draw(t, "datakind") {
		case 0:
			c.Data = append(c.Data, tokNil)
		case 1:
			c.Data = append(c.Data, tokBadNumber)
		case 2:
			c.Data = append(c.Data, tokNumber+gen.Text(gen.InstanceFor(t, docs[i%ns], 10)))
		default:
			c.Data = append(c.Data, gen.Text(gen.InstanceFor(t, docs[i%ns], 12)))
		}
	}
	pd := gen.SimpleDef(t, 2)
	pd["name"], pd["in"] = "p", rapid.SampledFrom([]string{"query", "header", "path", "formData"}).Draw(t, "in")
	c.Params = []string{gen.Text(pd)}
	hd := gen.SimpleDef(t, 2)
	c.Headers = []string{gen.Text(hd)}
	for i := 0; i < 3; i++ {
		c.PValues = append(c.PValues, gen.Text(gen.SimpleValue(t, pd, 0)))
		c.HValues = append(c.HValues, gen.Text(gen.SimpleValue(t, hd, 0)))
	}
	withSpec := rapid.IntRange(0, 3).Draw(t, "withspec") == 0
	if withSpec {
		nd := rapid.IntRange(1, 2).Draw(t, "ndocs")
		for i := 0; i < nd; i++ {
			doc, info := gen.Spec(t, gen.SpecOpts{MaxPaths: 2})
			if rapid.Bool().Draw(t, "breakdoc") {
				gen.ApplyRuleEdit(t, gen.ErrorPathEdit(t), doc, info)
			}
			c.Docs = append(c.Docs, gen.Text(doc))
		}
	}
	steps := rapid.IntRange(5, 40).Draw(t, "steps")
	specSteps := 0
	for i := 0; i < steps; i++ {
		k := rapid.SampledFrom([]string{"against", "against", "against", "validator", "validator", "param", "header", "spec"}).Draw(t, "stepkind")
		st := Step{Kind: k}
		switch k {
		case "against", "validator":
			// schema index -1: a nil *spec.Schema (AgainstSchema then answers from the shared empty result)
			st.A, st.B = rapid.IntRange(-1, ns-1).Draw(t, "sidx"), rapid.IntRange(0, len(c.Data)-1).Draw(t, "didx")
		case "param":
			st.B = rapid.IntRange(0, 2).Draw(t, "pvidx")
		case "header":
			st.B = rapid.IntRange(0, 2).Draw(t, "hvidx")
		case "spec":
			if len(c.Docs) == 0 || specSteps >= 2 {
				continue
			}
			specSteps++
			st.A = rapid.IntRange(0, len(c.Docs)-1).Draw(t, "docidx")
			st.Continue = rapid.Bool().Draw(t, "continue")
		}
		c.Steps = append(c.Steps, st)
	}
	return c
}

func decodeData(text string) (any, bool) {
	switch {
	case text == tokNil:
		return nil, true
	case text == tokBadNumber:
		return json.Number("1e999"), true
	case strings.HasPrefix(text, tokNumber):
		v, err := obs.DecodeNumber(strings.TrimPrefix(text, tokNumber))
		return v, err == nil
	}
	v, err := obs.DecodeStd(text)
	return v, err == nil
}

type result struct {
	obs.Outcome
	errs []error // the error values handed to the caller (AgainstSchema), for the re-read at the end
}

// run executes one step through the entry point under test (recycling on where
// the API offers it) or, with recycle=false, through the public non-recycling option.
func run(c Case, st Step, recycle bool) (r result, ok bool) {
	var ropt []validate.Option
	if recycle {
		ropt = []validate.Option{validate.WithRecycleValidators(true)}
	}
	switch st.Kind {
	case "against", "validator":
		if st.A >= len(c.Schemas) || st.B >= len(c.Data) {
			return r, false
		}
		data, okd := decodeData(c.Data[st.B])
		var sch *spec.Schema
		var err error
		if st.A >= 0 {
			sch, err = obs.ParseSchema(c.Schemas[st.A])
		}
		if !okd || err != nil {
			return r, false
		}
		msg, stack := obs.Guard(func() {
			if st.Kind == "against" && recycle {
				err := validate.AgainstSchema(sch, data, registry)
				r.Outcome = obs.FromError(err)
				if ce, ok := err.(*oaerrors.CompositeError); ok {
					r.errs = ce.Errors
				}
				return
			}
			res := validate.NewSchemaValidator(sch, nil, "", registry, ropt...).Validate(data)
			r.Outcome = obs.FromResult(res)
			if st.Kind == "against" {
				r.Outcome.Warnings = nil // AgainstSchema does not expose warnings
			}
		})
		if msg != "" {
			r.Outcome = obs.Outcome{Panic: msg, Stack: stack}
		}
	case "param":
		p := new(spec.Parameter)
		if len(c.Params) == 0 || st.B >= len(c.PValues) || json.Unmarshal([]byte(c.Params[0]), p) != nil {
			return r, false
		}
		v, okd := decodeData(c.PValues[st.B])
		if !okd {
			return r, false
		}
		msg, stack := obs.Guard(func() { r.Outcome = obs.FromResult(validate.NewParamValidator(p, registry, ropt...).Validate(v)) })
		if msg != "" {
			r.Outcome = obs.Outcome{Panic: msg, Stack: stack}
		}
	case "header":
		h := new(spec.Header)
		if len(c.Headers) == 0 || st.B >= len(c.HValues) || json.Unmarshal([]byte(c.Headers[0]), h) != nil {
			return r, false
		}
		v, okd := decodeData(c.HValues[st.B])
		if !okd {
			return r, false
		}
		msg, stack := obs.Guard(func() {
			r.Outcome = obs.FromResult(validate.NewHeaderValidator("X-H", h, registry, ropt...).Validate(v))
		})
		if msg != "" {
			r.Outcome = obs.Outcome{Panic: msg, Stack: stack}
		}
	case "spec":
		if st.A >= len(c.Docs) {
			return r, false
		}
		doc, err, pmsg := obs.LoadDoc([]byte(c.Docs[st.A]))
		if err != nil || pmsg != "" {
			return r, false
		}
		so := obs.ValidateSpec(doc, strfmt.Default, st.Continue, nil)
		r.Outcome = so.Outcome
	default:
		return r, false
	}
	return r, true
}

func key(st Step) string { return fmt.Sprintf("%s/%d/%d/%v", st.Kind, st.A, st.B, st.Continue) }

func earlyExit(c Case, st Step, o obs.Outcome) bool {
	if st.Kind == "against" || st.Kind == "validator" {
		if st.B < len(c.Data) && (c.Data[st.B] == tokNil || c.Data[st.B] == tokBadNumber) {
			return true
		}
	}
	return !o.Valid
}

// sharedEmpty is the library's package-level "nothing to report" result, which the validators return (and merge into
// their own results) instead of allocating one: what a nil validator returns. It is shared by every validation of the
// process, so it must stay as it is: no message, match count 1.
var sharedEmpty = (*validate.SchemaValidator)(nil).Validate(nil)

func sharedEmptyState() string {
	if sharedEmpty == nil {
		return ""
	}
	if len(sharedEmpty.Errors) == 0 && len(sharedEmpty.Warnings) == 0 && sharedEmpty.MatchCount == 1 {
		return ""
	}
	return fmt.Sprintf("errors %q warnings %q match count %d", obs.Set(sharedEmpty.Errors), obs.Set(sharedEmpty.Warnings), sharedEmpty.MatchCount)
}

func check(c Case) (out ev.Outcome) {
	defer hook.SetRedeemHook(nil)
	if sharedEmpty != nil {
		// each case starts from the pristine shared object, whatever an earlier case did to it
		sharedEmpty.Errors, sharedEmpty.Warnings, sharedEmpty.MatchCount = nil, nil, 1
	}
	// 1. reference outcomes: recycling off, from fresh pools
	hook.ResetPools()
	hook.SetRedeemHook(func(any) bool { return true }) // swallow: nothing is ever reused
	refSwallow := map[string]obs.Outcome{}
	refPublic := map[string]obs.Outcome{}
	for _, st := range c.Steps {
		k := key(st)
		if _, done := refSwallow[k]; done {
			continue
		}
		r, ok := run(c, st, true)
		if !ok {
			continue
		}
		refSwallow[k] = r.Outcome
		if st.Kind != "spec" {
			p, _ := run(c, st, false)
			refPublic[k] = p.Outcome
		}
	}
	for k, o := range refSwallow {
		if o.Panic != "" {
			out.Excluded = append(out.Excluded, "a step panics even without recycling (a C06/C07 matter)")
			hook.ResetPools()
			return out
		}
		if p, ok := refPublic[k]; ok && !p.Same(o) {
			return ev.Failf("step %s: with the pools in swallow mode the recycling entry point returns %s, the public non-recycling option returns %s", k, o, p)
		}
	}
	// 2. the history, with recycling on and every redeemed object scribbled
	hook.ResetPools()
	poison := c.Poison
	if c.NoScribble {
		hook.SetRedeemHook(nil)
	} else {
		hook.SetRedeemHook(func(obj any) bool { scribble.Scribble(obj, poison); return false })
	}
	type kept struct {
		step int
		errs []error
		msgs []string
	}
	var keep []kept
	kinds := map[string]bool{}
	invalid, earlyThenBorrow, pendingEarly := false, false, false
	executed := 0
	for i, st := range c.Steps {
		want, ok := refSwallow[key(st)]
		if !ok {
			continue
		}
		got, _ := run(c, st, true)
		executed++
		if got.Panic != "" {
			hook.SetRedeemHook(nil)
			hook.ResetPools()
			return ev.Failf("step %d (%s): panic with recycling on: %s [%s]; without recycling the call returns %s", i, key(st), got.Panic, obs.ShortStack(got.Stack), want)
		}
		if !got.Same(want) {
			return ev.Failf("step %d (%s): with recycling the call returns %s; alone with recycling off it returns %s", i, key(st), got.Outcome, want)
		}
		if state := sharedEmptyState(); state != "" {
			return ev.Failf("step %d (%s) left something behind in the result object that all validations share (returned by a nil validator, merged into later results): %s", i, key(st), state)
		}
		if len(got.errs) > 0 {
			keep = append(keep, kept{i, got.errs, obs.Set(got.errs)})
		}
		kinds[st.Kind] = true
		if !got.Valid {
			invalid = true
		}
		if pendingEarly {
			earlyThenBorrow = true
		}
		if earlyExit(c, st, got.Outcome) {
			pendingEarly = true
		}
	}
	// 3. errors handed out earlier must not have changed
	for _, k := range keep {
		now := obs.Set(k.errs)
		if strings.Join(now, "\x00") != strings.Join(k.msgs, "\x00") {
			return ev.Failf("the errors returned at step %d changed afterwards: then %q, now %q", k.step, k.msgs, now)
		}
	}
	for k := range kinds {
		out.Classes = append(out.Classes, "entry:"+k)
	}
	out.Classes = append(out.Classes, fmt.Sprintf("poison:%v", c.Poison), fmt.Sprintf("no-scribble:%v", c.NoScribble), fmt.Sprintf("invalid-seen:%v", invalid))
	out.Nontrivial = executed >= 3 && len(kinds) >= 2 && earlyThenBorrow && invalid
	return out
}

func TestProp(t *testing.T)   { ev.Prop(t, true, genCase, check) }
func TestReplay(t *testing.T) { ev.Replay(t, check) }
