// Package c11 decides property C11: a panic during one validation (raised by a
// caller-supplied format checker, or the documented invalid-schema panic)
// does not corrupt later validations.
package c11

import (
	"encoding/json"
	"fmt"
	"strings"
	"testing"

	"github.com/go-openapi/loads"
	"github.com/go-openapi/spec"
	"github.com/go-openapi/validate"
	"pgregory.net/rapid"

	"verif/internal/ev"
	"verif/internal/gen"
	"verif/internal/hook"
	"verif/internal/obs"
	"verif/internal/reg"
	"verif/internal/scribble"
)

func TestMain(m *testing.M) {
	ev.Describe("per case 2..4 schemas whose string members carry formats of a per-case registry (a 'fuse' checker counting its invocations), nested so that several validators of one type are alive at once "+
		"(composition inside properties inside items), 3..8 instances and a workload of 3..12 AgainstSchema calls; some schemas carry an unresolvable $ref on a property, reached lazily during Validate (the documented panic). "+
		"Every (schema, instance) outcome is first computed alone from reset pools. Then the workload is run fault-free, and once for EVERY k in 1..N (N = checker invocations of the workload, N <= 64) with the checker panicking at its k-th invocation (the harness recovers); "+
		"after each run the probe sequence (all pairs, twice, in generated order) is validated. Oracle: every outcome after the fault — the rest of the workload and all probes — equals the outcome computed alone; the process survives; under the validatedebug build no pool panic. "+
		"Non-trivial = N >= 3, a fault that unwinds through at least two validator levels, and probes that borrow at least three validators of a type live at the panic; distinct by content hash",
		"fault points: exhaustive over checker invocations within each generated workload, sampled over workloads; panics raised elsewhere are outside the statement",
		"specification part (about one case in 64): two or three small documents with formatted defaults / examples; the first is validated with the fuse armed at its first, middle and last checker invocation; afterwards every document is validated by that same SpecValidator and by a fresh one, a different document first each time, and must report what it reports alone",
		"a drawn scribble mode (off / zero / poison) additionally overwrites every redeemed object, which makes a double Put or a use-after-redeem visible immediately")
	ev.Main(m, "C11")
}

type Call struct {
	// K is "" for AgainstSchema(schema S, instance I), "param" / "header" for a one-shot recycling
	// parameter / header validator on the case's simple definition (S unused) and value I of Values
	K string `json:"k,omitempty"`
	S int    `json:"s"`
	I int    `json:"i"`
}

type Case struct {
	Schemas   []string `json:"schemas"`
	Instances []string `json:"instances"`
	Workload  []Call   `json:"workload"`
	Probes    []Call   `json:"probes"`
	Scribble  string   `json:"scribble"` // off | zero | poison
	// Simple is an array-typed simple schema (items carry a format of the fuse registry), used as a parameter and as a header
	Simple string   `json:"simple,omitempty"`
	Values []string `json:"values,omitempty"`
	// Docs are small specifications whose defaults and examples carry formats of the fuse registry: the first one is
	// validated with the fuse armed, then all of them, by the same SpecValidator object and by fresh ones
	Docs         []string `json:"docs,omitempty"`
	DocsContinue bool     `json:"docs_continue,omitempty"`
}

var formats = []string{"evenlen", "starts-a", "always", "upper-case", "never"}

// schemaNode draws a schema whose leaves are mostly formatted strings.
func schemaNode(t *rapid.T, depth int, badRef *bool) map[string]any {
	if depth <= 0 {
		if rapid.IntRange(0, 4).Draw(t, "leafkind") == 0 {
			return map[string]any{"type": rapid.SampledFrom([]string{"integer", "boolean", "null"}).Draw(t, "leaftype")}
		}
		return map[string]any{"type": "string", "format": rapid.SampledFrom(formats).Draw(t, "format")}
	}
	switch rapid.IntRange(0, 5).Draw(t, "nodekind") {
	case 0, 1:
		props := map[string]any{}
		n := rapid.IntRange(1, 3).Draw(t, "nprops")
		for i := 0; i < n; i++ {
			props[rapid.SampledFrom([]string{"a", "b", "c", "d"}).Draw(t, "pname")] = schemaNode(t, depth-1, badRef)
		}
		if badRef != nil && !*badRef && rapid.IntRange(0, 5).Draw(t, "plantbadref") == 0 {
			props["zz"] = map[string]any{"$ref": "#/definitions/missing"}
			*badRef = true
		}
		s := map[string]any{"type": "object", "properties": props}
		// required names and defaults: the bookkeeping of "required but created from a default" lives in the object validator
		if rapid.Bool().Draw(t, "withrequired") {
			var req []any
			for _, nm := range []string{"a", "b", "c", "d"} {
				if rapid.IntRange(0, 2).Draw(t, "req:"+nm) == 0 {
					req = append(req, nm)
				}
			}
			if len(req) > 0 {
				s["required"] = req
			}
		}
		for _, nm := range gen.SortedKeys(props) {
			if p, ok := props[nm].(map[string]any); ok && p["$ref"] == nil && rapid.IntRange(0, 3).Draw(t, "dflt:"+nm) == 0 {
				p["default"] = "dflt"
			}
		}
		if rapid.Bool().Draw(t, "addl") {
			s["additionalProperties"] = schemaNode(t, depth-1, badRef)
		}
		return s
	case 2:
		return map[string]any{"type": "array", "items": schemaNode(t, depth-1, badRef)}
	case 3:
		kw := rapid.SampledFrom([]string{"allOf", "anyOf", "oneOf"}).Draw(t, "comp")
		n := rapid.IntRange(2, 3).Draw(t, "ncomp")
		var subs []any
		for i := 0; i < n; i++ {
			subs = append(subs, schemaNode(t, depth-1, badRef))
		}
		return map[string]any{kw: subs}
	case 4:
		return map[string]any{"not": schemaNode(t, depth-1, badRef)}
	default:
		return schemaNode(t, 0, badRef)
	}
}

func genCase(t *rapid.T) Case {
	var c Case
	ns := rapid.IntRange(2, 4).Draw(t, "nschemas")
	var docs []map[string]any
	for i := 0; i < ns; i++ {
		bad := rapid.IntRange(0, 3).Draw(t, "maybad") != 0 // true = do not plant
		d := schemaNode(t, rapid.IntRange(1, 3).Draw(t, "depth"), &bad)
		docs = append(docs, d)
		c.Schemas = append(c.Schemas, gen.Text(d))
	}
	ni := rapid.IntRange(3, 8).Draw(t, "ninst")
	for i := 0; i < ni; i++ {
		d := docs[i%ns]
		v := gen.Satisfying(t, d)
		if rapid.IntRange(0, 2).Draw(t, "perturb") == 0 {
			v = gen.Perturb(t, v)
		}
		if m, ok := v.(map[string]any); ok && rapid.IntRange(0, 3).Draw(t, "addzz") == 0 {
			m["zz"] = "x"
		}
		if m, ok := v.(map[string]any); ok && len(m) > 0 && rapid.IntRange(0, 2).Draw(t, "dropmember") == 0 {
			keys := gen.SortedKeys(m)
			delete(m, keys[rapid.IntRange(0, len(keys)-1).Draw(t, "dropkey")])
		}
		c.Instances = append(c.Instances, gen.Text(v))
	}
	// an array parameter / header whose items (possibly items of items) are formatted strings
	items := map[string]any{"type": "string", "format": rapid.SampledFrom(formats).Draw(t, "simpleformat")}
	if rapid.Bool().Draw(t, "nesteditems") {
		items = map[string]any{"type": "array", "items": items}
	}
	c.Simple = gen.Text(map[string]any{"type": "array", "items": items})
	nv := rapid.IntRange(2, 4).Draw(t, "nvalues")
	for i := 0; i < nv; i++ {
		n := rapid.IntRange(0, 3).Draw(t, "valuelen")
		var arr []any
		for j := 0; j < n; j++ {
			var el any = rapid.SampledFrom([]string{"a", "ab", "abc", "B", ""}).Draw(t, "valueel")
			if items["type"] == "array" {
				el = []any{el, rapid.SampledFrom([]string{"a", "xy"}).Draw(t, "valueel2")}
			}
			arr = append(arr, el)
		}
		if arr == nil {
			arr = []any{}
		}
		c.Values = append(c.Values, gen.Text(arr))
	}
	nw := rapid.IntRange(3, 12).Draw(t, "nwork")
	for i := 0; i < nw; i++ {
		switch rapid.IntRange(0, 5).Draw(t, "callkind") {
		case 0:
			c.Workload = append(c.Workload, Call{K: "param", I: rapid.IntRange(0, nv-1).Draw(t, "pv")})
		case 1:
			c.Workload = append(c.Workload, Call{K: "header", I: rapid.IntRange(0, nv-1).Draw(t, "hv")})
		default:
			c.Workload = append(c.Workload, Call{S: rapid.IntRange(0, ns-1).Draw(t, "ws"), I: rapid.IntRange(0, ni-1).Draw(t, "wi")})
		}
	}
	// probes: every pair twice, in a generated order
	var pairs []Call
	for r := 0; r < 2; r++ {
		for s := 0; s < ns; s++ {
			for i := 0; i < ni; i++ {
				pairs = append(pairs, Call{S: s, I: i})
			}
		}
		for i := 0; i < nv; i++ {
			pairs = append(pairs, Call{K: "param", I: i}, Call{K: "header", I: i})
		}
	}
	perm := rapid.Permutation(pairs).Draw(t, "probeorder")
	c.Probes = perm
	c.Scribble = rapid.SampledFrom([]string{"off", "zero", "poison"}).Draw(t, "scribble")
	if gen.UniformIndex(t, 64, "withdocs") == 0 {
		c.DocsContinue = rapid.Bool().Draw(t, "docscontinue")
		nd := 2 + gen.UniformIndex(t, 2, "ndocs")
		for i := 0; i < nd; i++ {
			c.Docs = append(c.Docs, gen.Text(formattedDoc(t, i > 0)))
		}
	}
	return c
}

// formattedDoc builds a small specification with formatted string defaults / examples on a query parameter, a
// response header, a response schema and a definition; later documents may also break a structural rule
// (an array without items, items without type array), which must still be reported after a fault.
func formattedDoc(t *rapid.T, mayBreak bool) map[string]any {
	val := func() string { return rapid.SampledFrom([]string{"a", "ab", "abc", "B", ""}).Draw(t, "docvalue") }
	fstr := func() map[string]any {
		m := map[string]any{"type": "string", "format": rapid.SampledFrom(formats).Draw(t, "docformat")}
		if rapid.Bool().Draw(t, "withdefault") {
			m["default"] = val()
		}
		return m
	}
	fschema := func() map[string]any {
		m := fstr()
		if rapid.Bool().Draw(t, "withexample") {
			m["example"] = val()
		}
		return m
	}
	param := fstr()
	param["name"], param["in"] = "q", "query"
	arrParam := map[string]any{"name": "l", "in": "query", "type": "array", "items": fstr(), "default": []any{val(), val()}}
	thing := map[string]any{"type": "object", "properties": map[string]any{"s": fschema(), "n": map[string]any{"type": "integer", "default": gen.Number(1)}}}
	if mayBreak {
		switch gen.UniformIndex(t, 3, "dockind") {
		case 0:
			thing["properties"].(map[string]any)["list"] = map[string]any{"type": "array"}
		case 1:
			thing["properties"].(map[string]any)["odd"] = map[string]any{"type": "object", "items": map[string]any{"type": "string"}}
		}
	}
	return map[string]any{
		"swagger": "2.0", "info": map[string]any{"title": "t", "version": "1"},
		"paths": map[string]any{"/p": map[string]any{"get": map[string]any{
			"operationId": "op",
			"parameters":  []any{param, arrParam},
			"responses": map[string]any{"200": map[string]any{"description": "ok",
				"headers": map[string]any{"X-F": fstr()},
				"schema":  map[string]any{"type": "object", "properties": map[string]any{"r": fschema(), "t": map[string]any{"$ref": "#/definitions/Thing"}}}}},
		}}},
		"definitions": map[string]any{"Thing": thing},
	}
}

type fuse struct {
	count int
	at    int // 0 = never
	fired bool
	depth int // validator levels on the stack when it fired (approximation: stack frames of Validate)
}

const fusePanic = "verif: injected panic in a caller-supplied format checker"

func check(c Case) (out ev.Outcome) {
	defer hook.SetRedeemHook(nil)
	registry := reg.New()
	f := &fuse{}
	registry.Hook = func(name, data string) {
		f.count++
		if f.at != 0 && f.count == f.at {
			f.fired = true
			panic(fusePanic)
		}
	}
	setScribble := func() {
		switch c.Scribble {
		case "zero":
			hook.SetRedeemHook(func(obj any) bool { scribble.Scribble(obj, false); return false })
		case "poison":
			hook.SetRedeemHook(func(obj any) bool { scribble.Scribble(obj, true); return false })
		default:
			hook.SetRedeemHook(nil)
		}
	}
	run := func(cl Call) obs.Outcome {
		if cl.K != "" {
			v, err := obs.DecodeStd(c.Values[cl.I])
			if err != nil {
				return obs.Outcome{Panic: "harness: value does not decode"}
			}
			var out obs.Outcome
			msg, st := obs.Guard(func() {
				if cl.K == "param" {
					p := new(spec.Parameter)
					_ = json.Unmarshal([]byte(c.Simple), p)
					p.Name, p.In = "p", "query"
					out = obs.FromResult(validate.NewParamValidator(p, registry, validate.WithRecycleValidators(true)).Validate(v))
					return
				}
				h := new(spec.Header)
				_ = json.Unmarshal([]byte(c.Simple), h)
				out = obs.FromResult(validate.NewHeaderValidator("X-H", h, registry, validate.WithRecycleValidators(true)).Validate(v))
			})
			if msg != "" {
				return obs.Outcome{Panic: msg, Stack: st}
			}
			return out
		}
		data, err := obs.DecodeStd(c.Instances[cl.I])
		if err != nil {
			return obs.Outcome{Panic: "harness: instance does not decode"}
		}
		return obs.Against(c.Schemas[cl.S], data, registry)
	}
	valid := func(cl Call) bool {
		if cl.K != "" {
			return c.Simple != "" && cl.I >= 0 && cl.I < len(c.Values)
		}
		return cl.S >= 0 && cl.S < len(c.Schemas) && cl.I >= 0 && cl.I < len(c.Instances)
	}
	// 1. every pair alone, from reset pools, no fault
	alone := map[Call]obs.Outcome{}
	for s := range c.Schemas {
		for i := range c.Instances {
			hook.SetRedeemHook(nil)
			hook.ResetPools()
			f.at = 0
			o := run(Call{S: s, I: i})
			if o.Panic != "" && !strings.HasPrefix(o.Panic, "Invalid schema provided to SchemaValidator") {
				out.Excluded = append(out.Excluded, "a pair panics without any injected fault (a C06 matter)")
				hook.ResetPools()
				return out
			}
			alone[Call{S: s, I: i}] = o
		}
	}
	if c.Simple != "" {
		for i := range c.Values {
			for _, k := range []string{"param", "header"} {
				hook.SetRedeemHook(nil)
				hook.ResetPools()
				f.at = 0
				o := run(Call{K: k, I: i})
				if o.Panic != "" {
					out.Excluded = append(out.Excluded, "a parameter/header value panics without any injected fault (a C16 matter)")
					hook.ResetPools()
					return out
				}
				alone[Call{K: k, I: i}] = o
			}
		}
	}
	// 2. fault-free run of the workload to count checker invocations
	hook.ResetPools()
	f.count, f.at = 0, 0
	for _, cl := range c.Workload {
		if valid(cl) {
			run(cl)
		}
	}
	n := f.count
	if n > 64 {
		out.Excluded = append(out.Excluded, "workload reaches the checker more than 64 times")
		hook.ResetPools()
		return out
	}
	documented := 0
	for _, o := range alone {
		if o.Panic != "" {
			documented++
		}
	}
	deepest := 0
	firedRuns := 0
	// 3. k = 0 is the fault-free history (it still contains the documented panics, if any)
	for k := 0; k <= n; k++ {
		hook.ResetPools()
		setScribble()
		f.count, f.at, f.fired = 0, k, false
		afterFault := false
		for j, cl := range c.Workload {
			if !valid(cl) {
				continue
			}
			wasFired := f.fired
			got := run(cl)
			if f.fired && !wasFired {
				// this is the aborted validation
				if got.Panic != fusePanic {
					return ev.Failf("k=%d: the injected panic at workload call %d did not reach the caller as such: %s", k, j, got)
				}
				afterFault = true
				firedRuns++
				if d := strings.Count(got.Stack, ".Validate("); d > deepest {
					deepest = d
				}
				continue
			}
			want := alone[cl]
			if afterFault || k == 0 {
				if !got.Same(want) {
					return ev.Failf("k=%d (checker panics at its %d-th invocation; scribble %s): workload call %d (schema %d, instance %d) after the fault returns %s; in a fresh process it returns %s [%s]",
						k, k, c.Scribble, j, cl.S, cl.I, got, want, obs.ShortStack(got.Stack))
				}
			}
		}
		f.at = 0 // probes never fault
		for j, cl := range c.Probes {
			if !valid(cl) {
				continue
			}
			got := run(cl)
			if want := alone[cl]; !got.Same(want) {
				return ev.Failf("k=%d (checker panics at its %d-th invocation; scribble %s): probe %d (schema %d, instance %d) returns %s; in a fresh process it returns %s [%s]",
					k, k, c.Scribble, j, cl.S, cl.I, got, want, obs.ShortStack(got.Stack))
			}
		}
	}
	// 4. specifications: the first document is validated with the fuse armed at each checker invocation it reaches;
	// afterwards every document is validated by that same validator object and by a fresh one
	specPoints := 0
	if len(c.Docs) > 0 {
		load := func(i int) *loads.Document {
			d, err, pmsg := obs.LoadDoc([]byte(c.Docs[i]))
			if err != nil || pmsg != "" {
				return nil
			}
			return d
		}
		for _, cont := range []bool{c.DocsContinue} {
			validateWith := func(v *validate.SpecValidator, i int) obs.Outcome {
				d := load(i)
				if d == nil {
					return obs.Outcome{Panic: "harness: document does not load"}
				}
				var o obs.Outcome
				msg, st := obs.Guard(func() {
					if v == nil {
						v = validate.NewSpecValidator(d.Schema(), registry)
						v.SetContinueOnErrors(cont)
					}
					errs, _ := v.Validate(d)
					o = obs.FromResult(errs)
				})
				if msg != "" {
					return obs.Outcome{Panic: msg, Stack: st}
				}
				return o
			}
			var aloneDoc []obs.Outcome
			for i := range c.Docs {
				hook.SetRedeemHook(nil)
				hook.ResetPools()
				f.count, f.at = 0, 0
				o := validateWith(nil, i)
				if o.Panic != "" {
					out.Excluded = append(out.Excluded, "a generated specification panics or does not load without any injected fault")
					hook.ResetPools()
					return out
				}
				aloneDoc = append(aloneDoc, o)
				if i == 0 {
					specPoints = f.count
				}
			}
			// three fault points per document (each validation re-checks the whole document against the Swagger schema)
			ks := map[int]bool{1: true, (specPoints + 1) / 2: true, specPoints: true}
			for k := 1; k <= specPoints; k++ {
				if !ks[k] {
					continue
				}
				hook.ResetPools()
				setScribble()
				d0 := load(0)
				v := validate.NewSpecValidator(d0.Schema(), registry)
				v.SetContinueOnErrors(cont)
				f.count, f.at, f.fired = 0, k, false
				if got := validateWith(v, 0); f.fired && got.Panic != fusePanic {
					return ev.Failf("specification, k=%d: the injected panic did not reach the caller as such: %s", k, got)
				}
				if f.fired {
					firedRuns++
				}
				f.at = 0
				for round := 0; round < 1; round++ {
					for r := range c.Docs {
						// another document comes first after each fault point: a complete validation may repair
						// what the aborted one left behind
						i := (r + k) % len(c.Docs)
						for _, same := range []bool{true, false} {
							var got obs.Outcome
							if same {
								got = validateWith(v, i)
							} else {
								got = validateWith(nil, i)
							}
							if !got.Same(aloneDoc[i]) {
								return ev.Failf("specification %d validated after a checker panic at invocation %d of the validation of specification 0 (continue-on-errors=%v, same validator object=%v, scribble %s) returns %s; in a fresh process it returns %s [%s]",
									i, k, cont, same, c.Scribble, got, aloneDoc[i], obs.ShortStack(got.Stack))
							}
						}
					}
				}
			}
		}
		out.Classes = append(out.Classes, "with-specifications")
	}
	hook.SetRedeemHook(nil)
	hook.ResetPools()
	out.Counters = map[string]int64{"fault_points_enumerated": int64(n), "runs_in_which_the_fuse_fired": int64(firedRuns), "fault_points_in_specifications": int64(specPoints)}
	out.Classes = append(out.Classes, "scribble:"+c.Scribble, fmt.Sprintf("N:%s", bucket(n)), fmt.Sprintf("documented-panic-pairs:%v", documented > 0), fmt.Sprintf("unwind-depth>=2:%v", deepest >= 2))
	out.Nontrivial = n >= 3 && deepest >= 2 && len(c.Probes) >= 3
	return out
}

func bucket(n int) string {
	switch {
	case n == 0:
		return "0"
	case n < 3:
		return "1-2"
	case n < 10:
		return "3-9"
	case n < 30:
		return "10-29"
	default:
		return "30-64"
	}
}

func TestProp(t *testing.T)   { ev.Prop(t, true, genCase, check) }
func TestReplay(t *testing.T) { ev.Replay(t, check) }
