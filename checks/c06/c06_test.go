// Package c06 decides property C06: building a schema validator and validating
// always returns normally with a result, for every decodable schema (also
// degenerate ones) and every JSON value (also with json.Number numbers); the
// only panic is the documented one for unresolvable references.
package c06

import (
	"encoding/json"
	"fmt"
	"regexp"
	"strings"
	"testing"

	"github.com/go-openapi/strfmt"
	"github.com/go-openapi/validate"
	"pgregory.net/rapid"

	"verif/internal/ev"
	"verif/internal/gen"
	"verif/internal/hook"
	"verif/internal/obs"
	"verif/internal/refmodel"
	"verif/internal/reg"
)

var registry = reg.New()

func TestMain(m *testing.M) {
	ev.Describe("degenerate-friendly schema grammar (empty enum/required/items/anyOf/type lists, negative and huge sizes, multipleOf <= 0, uncompilable patterns, unknown types and formats, format without type, "+
		"additionalItems without tuple, keywords that do not apply to the instance kind) x instances (derived from the schema, random, or extreme: +-1e308, 5e-324, 2^63, 2^64, nesting up to 512, long strings), "+
		"numbers carried as float64 or json.Number, every subset of the five public options, nil / custom / default registries, both entry points; a tagged subset carries an unresolvable $ref. "+
		"Oracle: returns normally with a non-nil result; a panic is accepted only for the tagged subset and only with the documented 'Invalid schema provided' message. "+
		"Non-trivial = the schema has at least one degenerate feature, or a keyword group that does not apply to the instance kind, or the instance is extreme; distinct by content hash",
		"termination is observed as 'returned before the go test timeout'; a timeout is reported as inconclusive, never as a violation",
		"pools are reset (verif hook) after any panic so that cases stay independent")
	ev.Main(m, "C06")
}

type Case struct {
	Schema    string   `json:"schema"`
	Instance  string   `json:"instance"`
	UseNumber bool     `json:"use_number"`
	Options   []string `json:"options"`
	Reg       string   `json:"reg"`
	Entry     string   `json:"entry"`
	BadRef    bool     `json:"bad_ref"`
	Recursive bool     `json:"recursive,omitempty"`
	Root      string   `json:"root,omitempty"` // root path handed to NewSchemaValidator
}

var optionNames = []string{"EnableObjectArrayTypeCheck", "EnableArrayMustHaveItemsCheck", "SwaggerSchema", "WithRecycleValidators", "WithSkipSchemataResult"}

func extreme(t *rapid.T) string {
	switch rapid.IntRange(0, 9).Draw(t, "extremekind") {
	case 0:
		return rapid.SampledFrom([]string{"1e308", "-1e308", "5e-324", "9223372036854775808", "18446744073709551616", "-9223372036854775809", "1.7976931348623157e308", "0.1e-400", "123456789012345678901234567890", "-0", "1E5", "2.0"}).Draw(t, "extremenum")
	case 1:
		n := rapid.SampledFrom([]int{1, 30, 200, 512}).Draw(t, "nest")
		return strings.Repeat("[", n) + strings.Repeat("]", n)
	case 2:
		n := rapid.SampledFrom([]int{1, 30, 200, 512}).Draw(t, "nestobj")
		return strings.Repeat(`{"a":`, n) + "null" + strings.Repeat("}", n)
	case 3:
		n := rapid.SampledFrom([]int{100, 5000, 100000}).Draw(t, "longstr")
		return `"` + strings.Repeat(rapid.SampledFrom([]string{"a", "é", "日"}).Draw(t, "longch"), n) + `"`
	case 4:
		n := rapid.SampledFrom([]int{10, 300, 3000}).Draw(t, "longarr")
		return "[" + strings.TrimSuffix(strings.Repeat(rapid.SampledFrom([]string{"1,", `"a",`, "null,", "{},", "[1],"}).Draw(t, "arrel"), n), ",") + "]"
	case 5:
		return `{"":{"":{"":[null,{"":1e308}]}},"a.b":{"0":[[],[[]]]},"id":null,"$schema":{},"x":-0.0}`
	default:
		return gen.Text(gen.Value(t, 20))
	}
}

func genCase(t *rapid.T) Case {
	o := gen.SchemaOpts{MaxDepth: 3, Degenerate: true, Formats: append(append([]string{}, reg.Names...), reg.Unknown...)}
	if ev.Thorough() {
		o.MaxDepth = 5
	}
	doc := gen.Schema(t, o)
	c := Case{}
	if gen.UniformIndex(t, 6, "recursive") == 0 {
		// a recursive definition (every reference resolves; each cycle passes through a keyword that consumes
		// a level of the instance, so validation is well-founded), reached from the root directly or through a member
		doc = recursiveDoc(t)
		c.Recursive = true
		c.Schema = gen.Text(doc)
		c.Instance = gen.Text(recursiveInstance(t, gen.UniformIndex(t, 5, "recdepth")))
	} else if rapid.IntRange(0, 7).Draw(t, "badref") == 0 {
		c.BadRef = true
		injectBadRef(t, doc)
	}
	if !c.Recursive {
		c.Schema = gen.Text(doc)
		if rapid.IntRange(0, 2).Draw(t, "extremeinst") == 0 {
			c.Instance = extreme(t)
		} else {
			c.Instance = gen.Text(gen.InstanceFor(t, doc, 15))
		}
	}
	c.UseNumber = rapid.Bool().Draw(t, "usenumber")
	for _, n := range optionNames {
		if rapid.Bool().Draw(t, "opt:"+n) {
			c.Options = append(c.Options, n)
		}
	}
	c.Reg = rapid.SampledFrom([]string{"custom", "custom", "nil", "default"}).Draw(t, "reg")
	c.Entry = rapid.SampledFrom([]string{"against", "validator"}).Draw(t, "entry")
	if c.Entry == "validator" {
		// root paths that look like the positions the Swagger structural checks treat specially
		c.Root = rapid.SampledFrom([]string{"", "", "root", "examples", "example", "default", "properties", "a.default", "x.examples", "items", "a.properties"}).Draw(t, "rootpath")
	}
	return c
}

// recursiveDoc builds {"definitions":{"N": <recursive>, ...}, <root>} where <root> is a bare $ref to N, an allOf
// holding it, or an object/array whose members are N.
func recursiveDoc(t *rapid.T) map[string]any {
	ref := func(n string) map[string]any { return map[string]any{"$ref": "#/definitions/" + n} }
	var n map[string]any
	switch gen.UniformIndex(t, 6, "recshape") {
	case 0:
		n = map[string]any{"type": "array", "items": ref("N")}
	case 1:
		n = map[string]any{"type": "object", "properties": map[string]any{"c": ref("N"), "v": map[string]any{"type": "integer"}}}
	case 2:
		n = map[string]any{"additionalProperties": ref("N")}
	case 3:
		n = map[string]any{"type": "array", "items": []any{ref("N"), map[string]any{"type": "string"}}, "additionalItems": ref("N")}
	case 4:
		n = map[string]any{"anyOf": []any{map[string]any{"type": []any{"null", "integer", "string"}}, map[string]any{"type": "object", "patternProperties": map[string]any{"^c": ref("N")}}, map[string]any{"type": "array", "items": ref("M")}}}
	default:
		n = map[string]any{"properties": map[string]any{"c": ref("M")}, "dependencies": map[string]any{"v": []any{"c"}}}
	}
	defs := map[string]any{"N": n, "M": map[string]any{"allOf": []any{ref("N")}, "minProperties": gen.Number(0)}}
	switch gen.UniformIndex(t, 6, "recsection") {
	case 0:
		// the recursive schema lives under another keyword than definitions, and the root is a bare reference to it
		node := map[string]any{"type": "object", "properties": map[string]any{"c": map[string]any{"$ref": "#/properties/c"}, "v": map[string]any{"type": "integer"}}}
		return map[string]any{"$ref": "#/properties/c", "properties": map[string]any{"c": node}}
	case 1:
		node := map[string]any{"type": "array", "items": map[string]any{"$ref": "#/additionalProperties"}}
		return map[string]any{"$ref": "#/additionalProperties", "additionalProperties": node}
	}
	var root map[string]any
	switch gen.UniformIndex(t, 4, "recroot") {
	case 0, 1:
		root = ref("N")
	case 2:
		root = map[string]any{"allOf": []any{ref("N"), ref("M")}}
	default:
		root = map[string]any{"properties": map[string]any{"c": ref("N")}, "items": ref("M")}
	}
	root["definitions"] = defs
	return root
}

// recursiveInstance nests arrays and objects with the member names recursiveDoc uses.
func recursiveInstance(t *rapid.T, depth int) any {
	if depth <= 0 {
		return gen.Scalar(t)
	}
	switch gen.UniformIndex(t, 4, "recinst") {
	case 0:
		return []any{recursiveInstance(t, depth-1)}
	case 1:
		return []any{recursiveInstance(t, depth-1), "s", recursiveInstance(t, depth-2)}
	case 2:
		return map[string]any{"c": recursiveInstance(t, depth-1), "v": gen.Scalar(t)}
	default:
		return map[string]any{"c": recursiveInstance(t, depth-1), "cc": recursiveInstance(t, depth-2)}
	}
}

// injectBadRef plants a $ref that resolves nowhere: at the root, in a property
// (reached lazily during Validate), in items or under a composition keyword.
func injectBadRef(t *rapid.T, doc map[string]any) {
	bad := map[string]any{"$ref": rapid.SampledFrom([]string{"#/definitions/missing", "#/nowhere/at/all", "#/definitions/D9/properties/zz"}).Draw(t, "badreftarget")}
	switch rapid.IntRange(0, 4).Draw(t, "badrefplace") {
	case 0:
		props, _ := doc["properties"].(map[string]any)
		if props == nil {
			props = map[string]any{}
			doc["properties"] = props
		}
		props[gen.Name(t)] = bad
	case 1:
		doc["items"] = bad
	case 2:
		doc["allOf"] = []any{bad}
	case 3:
		doc["additionalProperties"] = bad
	default:
		doc["not"] = bad
	}
}

func options(names []string) []validate.Option {
	var out []validate.Option
	for _, n := range names {
		switch n {
		case "EnableObjectArrayTypeCheck":
			out = append(out, validate.EnableObjectArrayTypeCheck(true))
		case "EnableArrayMustHaveItemsCheck":
			out = append(out, validate.EnableArrayMustHaveItemsCheck(true))
		case "SwaggerSchema":
			out = append(out, validate.SwaggerSchema(true))
		case "WithRecycleValidators":
			out = append(out, validate.WithRecycleValidators(true))
		case "WithSkipSchemataResult":
			out = append(out, validate.WithSkipSchemataResult(true))
		}
	}
	return out
}

func registryFor(name string) strfmt.Registry {
	switch name {
	case "nil":
		return nil
	case "default":
		return strfmt.Default
	}
	return registry
}

// degenerate lists the degenerate features of a schema document.
func degenerate(v any, acc map[string]bool) {
	switch x := v.(type) {
	case map[string]any:
		for k, w := range x {
			switch k {
			case "enum", "required", "allOf", "anyOf", "oneOf", "type", "items":
				if arr, ok := w.([]any); ok && len(arr) == 0 {
					acc["empty-"+k] = true
				}
				if k == "type" {
					if s, ok := w.(string); ok {
						switch s {
						case "null", "boolean", "integer", "number", "string", "array", "object":
						default:
							acc["unknown-type"] = true
						}
					}
				}
			case "minLength", "maxLength", "minItems", "maxItems", "minProperties", "maxProperties":
				if n, ok := w.(json.Number); ok && (strings.HasPrefix(string(n), "-") || len(string(n)) > 6) {
					acc["odd-size"] = true
				}
			case "multipleOf":
				if n, ok := w.(json.Number); ok {
					if f, err := n.Float64(); err != nil || f <= 0 || f > 1e300 {
						acc["odd-multipleOf"] = true
					}
				}
			case "pattern":
				if p, ok := w.(string); ok {
					if _, err := regexp.Compile(p); err != nil {
						acc["bad-pattern"] = true
					}
				}
			case "patternProperties":
				if m, ok := w.(map[string]any); ok {
					for p := range m {
						if _, err := regexp.Compile(p); err != nil {
							acc["bad-pattern-property"] = true
						}
					}
				}
			case "format":
				if _, hasType := x["type"]; !hasType {
					acc["format-without-type"] = true
				}
			case "additionalItems":
				if _, isTuple := x["items"].([]any); !isTuple {
					acc["additionalItems-without-tuple"] = true
				}
			case "maximum", "minimum":
				if n, ok := w.(json.Number); ok && len(string(n)) > 16 {
					acc["huge-bound"] = true
				}
			}
			degenerate(w, acc)
		}
	case []any:
		for _, w := range x {
			degenerate(w, acc)
		}
	}
}

func check(c Case) (out ev.Outcome) {
	schemaRaw, err := refmodel.Decode([]byte(c.Schema))
	if err != nil {
		return ev.Failf("harness: schema text does not decode: %v", err)
	}
	sch, err := obs.ParseSchema(c.Schema)
	if err != nil {
		out.Excluded = append(out.Excluded, "schema does not decode into spec.Schema")
		return out
	}
	var data any
	if c.UseNumber {
		data, err = obs.DecodeNumber(c.Instance)
	} else {
		data, err = obs.DecodeStd(c.Instance)
	}
	if err != nil {
		out.Excluded = append(out.Excluded, "instance does not decode")
		return out
	}
	deg := map[string]bool{}
	degenerate(schemaRaw, deg)
	for k := range deg {
		out.Classes = append(out.Classes, "degenerate:"+k)
	}
	out.Classes = append(out.Classes, "entry:"+c.Entry, "reg:"+c.Reg, fmt.Sprintf("json.Number:%v", c.UseNumber), fmt.Sprintf("badref:%v", c.BadRef), fmt.Sprintf("recursive:%v", c.Recursive))
	for _, o := range c.Options {
		out.Classes = append(out.Classes, "opt:"+o)
	}
	out.Nontrivial = len(deg) > 0 || len(c.Instance) > 200 || c.BadRef || c.UseNumber || c.Recursive

	rg := registryFor(c.Reg)
	var nilResult bool
	msg, stack := obs.Guard(func() {
		if c.Entry == "against" {
			_ = validate.AgainstSchema(sch, data, rg, options(c.Options)...)
			return
		}
		res := validate.NewSchemaValidator(sch, nil, c.Root, rg, options(c.Options)...).Validate(data)
		nilResult = res == nil
	})
	if msg == "" {
		if nilResult {
			out.Fail = "Validate returned a nil result"
		}
		out.Classes = append(out.Classes, "returned-normally")
		return out
	}
	hook.ResetPools()
	if c.BadRef && strings.HasPrefix(msg, "Invalid schema provided to SchemaValidator") {
		out.Classes = append(out.Classes, "documented-panic")
		return out
	}
	if id, ok := ev.KnownOpen("spec_marshal_unescaped_key"); ok && strings.Contains(msg, "spec.OrderSchemaItems") && gen.KeyNeedsEscape(schemaRaw) {
		out.Known = append(out.Known, id)
		return out
	}
	out.Fail = fmt.Sprintf("panic: %s [%s]", msg, obs.ShortStack(stack))
	return out
}

func TestProp(t *testing.T)   { ev.Prop(t, true, genCase, check) }
func TestReplay(t *testing.T) { ev.Replay(t, check) }
func FuzzC06(f *testing.F)    { ev.FuzzProp(f, true, genCase, check) }
