#!/bin/bash
# Runs the pinned suite of /repo (guard off) and compares with /root/.vp/BASELINE.json stable_pass.
export GOFLAGS=-mod=mod GOPROXY=off GOSUMDB=off GOTOOLCHAIN=local
cd /repo && unshare -rn sh -c "ip link set lo up; go test -json -vet=off -count=1 -timeout 25m ./..." > /tmp/baseline.$$.json 2>/dev/null
python3 - /tmp/baseline.$$.json <<'PY'
import json,sys
base=json.load(open('/root/.vp/BASELINE.json'))
want=set(base['stable_pass'])
res={}
for line in open(sys.argv[1]):
    try: e=json.loads(line)
    except: continue
    if e.get('Test') and e.get('Action') in('pass','fail','skip'):
        res[e['Package']+'::'+e['Test']]=e['Action']
missing=[t for t in want if res.get(t)!='pass']
print('stable_pass expected',len(want),'passing now',len(want)-len(missing))
for t in sorted(missing)[:30]: print('  NOT PASSING:',t,res.get(t))
sys.exit(1 if missing else 0)
PY
rc=$?
rm -f /tmp/baseline.$$.json
git -C /repo status --short | grep -v '^??' | grep go.sum && echo "WARNING go.sum modified"
exit $rc
