#!/bin/bash
# usage: tools/seedbatch.sh <name> [checks...] ; appends to /verif/work/seedbatch.log
cd /verif
mkdir -p work
for spec in "$@"; do
  name=${spec%%:*}; checks=${spec#*:}; checks=${checks//,/ }
  [ -f ${SEEDOUT:-/tmp/seeded-out}/$name/meta.json ] || { echo "SKIP $name (no meta.json)" >> work/seedbatch.log; continue; }
  [ -f /verif/seeded/$name/meta.json ] && { echo "DONE-ALREADY $name" >> work/seedbatch.log; continue; }
  echo "=== $name ($checks) $(date +%H:%M:%S)" >> work/seedbatch.log
  tools/seedeval.py ${SEEDOUT:-/tmp/seeded-out}/$name $checks >> work/seedbatch.log 2>&1
  git -C /repo checkout -- . 2>/dev/null
done
echo "BATCH-END $(date +%H:%M:%S)" >> work/seedbatch.log
