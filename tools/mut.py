#!/usr/bin/env python3
"""usage: tools/mut.py <file-in-repo> <old> <new> [--nth N] -- <check ids...>
Temporarily replaces one occurrence of <old> by <new> in /repo/<file>, checks that the
library still builds, runs the named quick checks, always restores the file."""
import sys, subprocess, os
args=sys.argv[1:]
sep=args.index('--')
f,old,new=args[0],args[1],args[2]
nth=1
if '--nth' in args[:sep]:
    nth=int(args[args.index('--nth')+1])
ids=args[sep+1:]
old=old.encode().decode('unicode_escape'); new=new.encode().decode('unicode_escape')
path='/repo/'+f
src=open(path).read()
idx=-1
for _ in range(nth):
    idx=src.find(old, idx+1)
    if idx<0:
        print('MUTANT: pattern not found'); sys.exit(3)
mut=src[:idx]+new+src[idx+len(old):]
env=dict(os.environ, GOFLAGS='-mod=mod', GOPROXY='off', GOSUMDB='off', GOTOOLCHAIN='local')
try:
    open(path,'w').write(mut)
    r=subprocess.run(['go','build','./...'],cwd='/repo',env=env,capture_output=True,text=True)
    if r.returncode!=0:
        print('MUTANT DOES NOT COMPILE\n'+r.stderr[:500]); sys.exit(3)
    for i in ids:
        r=subprocess.run(['bin/verifrun',i,os.environ.get('TIER','quick')],cwd='/verif',env=env,capture_output=True,text=True)
        lines=[l[:300] for l in r.stdout.splitlines() if l.startswith(('VIOLATION','OK','INCONCLUSIVE','  reason'))]
        print(f'{i}: exit={r.returncode}', ' || '.join(lines[:3]))
finally:
    open(path,'w').write(src)
    subprocess.run(['git','-C','/repo','diff','--quiet'])
