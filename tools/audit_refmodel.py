#!/opt/veriftools/pyvenv/bin/python
"""Audit of the draft-4 reference model against python-jsonschema (Draft4Validator).
usage: audit_refmodel.py <triples.jsonl> -> prints one JSON summary line.
Pairs are skipped when python cannot judge them on equal terms: a pattern Go's regexp accepts but python's re
does not (e.g. \\p{L}), or an integer-valued literal written with an exponent (python-jsonschema's draft-4
integer test is lexical)."""
import json, re, sys
from decimal import Decimal
import jsonschema


def norm(v):
    if isinstance(v, Decimal):
        if v == v.to_integral_value():
            return int(v)
        return v
    if isinstance(v, list):
        return [norm(x) for x in v]
    if isinstance(v, dict):
        return {k: norm(x) for k, x in v.items()}
    return v


def patterns(v, acc):
    if isinstance(v, dict):
        for k, w in v.items():
            if k == 'pattern' and isinstance(w, str):
                acc.append(w)
            if k == 'patternProperties' and isinstance(w, dict):
                acc.extend(w.keys())
            patterns(w, acc)
    elif isinstance(v, list):
        for w in v:
            patterns(w, acc)


def main():
    n = agree = skipped = 0
    dis = []
    for line in open(sys.argv[1]):
        t = json.loads(line, parse_float=Decimal)
        schema, inst, want = norm(t['schema']), norm(t['instance']), t['model_valid']
        pats = []
        patterns(schema, pats)
        try:
            for p in pats:
                re.compile(p)
                if '\\p' in p:
                    raise re.error('\\p{..} classes are not supported by python re')
        except re.error:
            skipped += 1
            continue
        try:
            got = jsonschema.Draft4Validator(schema).is_valid(inst)
        except Exception as e:  # noqa
            skipped += 1
            continue
        n += 1
        if got == want:
            agree += 1
        elif len(dis) < 20:
            dis.append({'schema': json.loads(json.dumps(t['schema'], default=str)), 'instance': json.loads(json.dumps(t['instance'], default=str)), 'model': want, 'python_jsonschema': got})
    print(json.dumps({'compared': n, 'agree': agree, 'skipped': skipped, 'disagreements': dis}, default=str))


main()
