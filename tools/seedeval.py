#!/usr/bin/env python3
"""usage: tools/seedeval.py <seeded-out-dir> [check ids...]

Confirms an independently seeded change and measures which checks catch it.

 1. In a scratch worktree of /repo (under /tmp, removed afterwards): the patch applies, the library builds,
    the pinned suite still passes (compared with BASELINE.json), the demonstration fails with the patch
    and passes without it.
 2. In /repo itself: git apply the patch, run the named quick checks (default: the check of the property
    named in meta.json), git checkout -- . straight afterwards (always, also on error).
 3. Copies patch.diff, the demonstration and an extended meta.json to /verif/seeded/<name>/.
"""
import json, os, shutil, subprocess, sys, tempfile

ENV = dict(os.environ, GOFLAGS='-mod=mod', GOPROXY='off', GOSUMDB='off', GOTOOLCHAIN='local')


def run(cmd, cwd, timeout=3000):
    try:
        r = subprocess.run(cmd, cwd=cwd, env=ENV, capture_output=True, text=True, errors='replace', timeout=timeout)
        return r.returncode, r.stdout + r.stderr
    except subprocess.TimeoutExpired as e:
        return 124, 'TIMEOUT ' + str(e)


def suite_ok(wt):
    # a private network namespace: the suite starts a test server on port 1234, which concurrent runs on this host also want
    rc, out = run(['unshare', '-rn', 'sh', '-c', 'ip link set lo up; exec go test -json -vet=off -count=1 -timeout 25m ./...'], wt)
    base = json.load(open('/root/.vp/BASELINE.json'))
    want = set(base['stable_pass'])
    res = {}
    for line in out.splitlines():
        try:
            e = json.loads(line)
        except Exception:
            continue
        if e.get('Test') and e.get('Action') in ('pass', 'fail', 'skip'):
            res[e['Package'] + '::' + e['Test']] = e['Action']
    missing = sorted(t for t in want if res.get(t) != 'pass')
    return missing


def main():
    src = sys.argv[1].rstrip('/')
    name = os.path.basename(src)
    meta = json.load(open(os.path.join(src, 'meta.json')))
    prop = meta.get('property', name.split('-')[0])
    checks = sys.argv[2:] or [prop]
    patch = os.path.abspath(os.path.join(src, 'patch.diff'))
    demo = os.path.join(src, 'demo_test.go')
    report = {'name': name, 'property': prop}

    wt = tempfile.mkdtemp(prefix='seedeval-', dir='/tmp')
    os.rmdir(wt)
    subprocess.run(['git', '-C', '/repo', 'worktree', 'add', '-q', '--detach', wt, 'HEAD'], check=True)
    try:
        demo_pkg_dir = wt
        txt = open(demo).read()
        if txt.lstrip().startswith('package post') or '\npackage post' in txt[:400]:
            demo_pkg_dir = os.path.join(wt, 'post')
        demo_dst = os.path.join(demo_pkg_dir, 'zz_seeded_demo_test.go')
        shutil.copy(demo, demo_dst)
        race = ['-race'] if ('-race' in json.dumps(meta)) else []
        rc0, out0 = run(['go', 'test', '-vet=off', '-count=1', '-timeout', '15m', '-run', 'TestSeededDemo'] + race + ['.'], demo_pkg_dir)
        report['demo_passes_without_change'] = rc0 == 0
        os.remove(demo_dst)
        rc, out = run(['git', 'apply', patch], wt)
        report['patch_applies'] = rc == 0
        if rc != 0:
            report['error'] = out[-800:]
            return report
        rc, out = run(['go', 'build', './...'], wt)
        report['builds'] = rc == 0
        missing = suite_ok(wt)
        report['suite_passes_with_change'] = not missing
        report['suite_not_passing'] = missing[:10]
        shutil.copy(demo, demo_dst)
        rc1, out1 = run(['go', 'test', '-vet=off', '-count=1', '-timeout', '15m', '-run', 'TestSeededDemo'] + race + ['.'], demo_pkg_dir)
        report['demo_fails_with_change'] = rc1 != 0
        report['demo_output_with_change'] = out1[-600:]
    finally:
        subprocess.run(['git', '-C', '/repo', 'worktree', 'remove', '--force', wt])
        shutil.rmtree(wt, ignore_errors=True)

    confirmed = all(report.get(k) for k in ('patch_applies', 'builds', 'suite_passes_with_change', 'demo_fails_with_change', 'demo_passes_without_change'))
    report['confirmed'] = confirmed
    caught = {}
    if confirmed:
        try:
            subprocess.run(['git', '-C', '/repo', 'apply', patch], check=True)
            for c in checks:
                rc, out = run(['bin/verifrun', c, os.environ.get('TIER', 'quick')], '/verif', timeout=6000)
                lines = [l[:400] for l in out.splitlines() if l.startswith(('VIOLATION', 'OK', 'INCONCLUSIVE', '  reason'))]
                caught[c] = {'exit': rc, 'lines': lines[:3]}
        finally:
            subprocess.run(['git', '-C', '/repo', 'checkout', '--', '.'])
            subprocess.run(['git', '-C', '/repo', 'status', '--short'])
    report['checks'] = caught
    report['caught_by'] = sorted(c for c, v in caught.items() if v['exit'] == 1)

    if not confirmed:
        return report  # a change is only kept once everything claimed about it has been confirmed here
    dst = os.path.join('/verif/seeded', name)
    os.makedirs(dst, exist_ok=True)
    shutil.copy(patch, os.path.join(dst, 'patch.diff'))
    shutil.copy(demo, os.path.join(dst, 'demo_test.go'))
    meta['confirmation'] = report
    meta['what_i_ran'] = ['tools/seedeval.py ' + src + ' ' + ' '.join(checks)]
    json.dump(meta, open(os.path.join(dst, 'meta.json'), 'w'), indent=1)
    return report


if __name__ == '__main__':
    r = main()
    print(json.dumps({k: r.get(k) for k in ('name', 'confirmed', 'patch_applies', 'builds', 'suite_passes_with_change', 'demo_fails_with_change', 'demo_passes_without_change', 'caught_by', 'suite_not_passing', 'error')}))
    for c, v in (r.get('checks') or {}).items():
        print('  ', c, v['exit'], ' || '.join(v['lines'])[:500])
