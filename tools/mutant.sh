#!/bin/bash
# usage: tools/mutant.sh <patch-file|-e 'sed-expr' file> -- <check ids...>
# Applies a temporary change to /repo, runs the quick checks named, always reverts.
set -u
cd /verif
restore() { git -C /repo checkout -- . ; }
trap restore EXIT
if [ "$1" = "-e" ]; then
  sed -i -E "$2" "/repo/$3" || exit 3
  shift 3
else
  git -C /repo apply "$1" || { echo "patch does not apply"; exit 3; }
  shift
fi
[ "$1" = "--" ] && shift
if git -C /repo diff --quiet; then echo "MUTANT HAD NO EFFECT ON SOURCE"; exit 3; fi
git -C /repo diff --stat | tail -1
( cd /repo && GOFLAGS=-mod=mod GOPROXY=off go build ./... ) || { echo "MUTANT DOES NOT COMPILE"; exit 3; }
rc=0
for id in "$@"; do
  VERIF_SEED=${VERIF_SEED:-1} bin/verifrun "$id" ${TIER:-quick} | grep -E "^(VIOLATION|OK|INCONCLUSIVE|SUMMARY|KNOWN|  reason)" | cut -c1-400
done
