#!/usr/bin/env python3
"""usage: tools/seedrecheck.py <name> [check ids...]
Re-runs quick checks against a kept seeded change (/verif/seeded/<name>/patch.diff applied to /repo, always undone)
and records the outcome in its meta.json."""
import json, os, subprocess, sys
ENV = dict(os.environ, GOFLAGS='-mod=mod', GOPROXY='off', GOSUMDB='off', GOTOOLCHAIN='local')
name = sys.argv[1]
d = '/verif/seeded/' + name
meta = json.load(open(d + '/meta.json'))
checks = sys.argv[2:] or [meta['property']]
conf = meta.setdefault('confirmation', {})
res = conf.setdefault('checks', {})
try:
    subprocess.run(['git', '-C', '/repo', 'apply', d + '/patch.diff'], check=True)
    for c in checks:
        r = subprocess.run(['bin/verifrun', c, os.environ.get('TIER', 'quick')], cwd='/verif', env=ENV, capture_output=True, text=True)
        lines = [l[:400] for l in r.stdout.splitlines() if l.startswith(('VIOLATION', 'OK', 'INCONCLUSIVE', '  reason'))]
        res[c] = {'exit': r.returncode, 'lines': lines[:3]}
        print(name, c, r.returncode, ' || '.join(lines[:2])[:400])
finally:
    subprocess.run(['git', '-C', '/repo', 'checkout', '--', '.'])
conf['caught_by'] = sorted(c for c, v in res.items() if v['exit'] == 1)
meta.setdefault('what_i_ran', []).append('tools/seedrecheck.py ' + ' '.join(sys.argv[1:]))
json.dump(meta, open(d + '/meta.json', 'w'), indent=1)
