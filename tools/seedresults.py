#!/usr/bin/env python3
"""Writes /verif/seeded/RESULTS.md from the meta.json files of the kept seeded changes."""
import json, glob, os
rows = []
for m in sorted(glob.glob('/verif/seeded/*/meta.json')):
    d = json.load(open(m))
    c = d.get('confirmation', {})
    checks = c.get('checks', {})
    ran = ', '.join('%s:%s' % (k, {0: 'ok', 1: 'VIOLATION', 2: 'inconclusive'}.get(v['exit'], v['exit'])) for k, v in sorted(checks.items()))
    caught = ', '.join(c.get('caught_by', [])) or '— (missed)'
    if d.get('obsolete') and not c.get('caught_by'):
        caught = 'n/a — no longer breaks the property (see meta.json: obsolete)'
    if d.get('outside_domain') and not c.get('caught_by'):
        caught = 'n/a — outside the property\'s domain (see meta.json: outside_domain)'
    if d.get('first_pass'):
        ran += ' [first pass: %s]' % d['first_pass'].split(' (')[0]
    rows.append((c.get('name', os.path.basename(os.path.dirname(m))), d.get('property', ''), caught, ran,
                 d.get('needs_to_manifest', '').replace('\n', ' ')[:230]))
with open('/verif/seeded/RESULTS.md', 'w') as f:
    f.write('# Independently seeded changes: which check catches which\n\n')
    f.write('Every change below was written by a sub-agent that saw only the text of one property and a scratch worktree. It is kept only after\n'
            'confirmation here (tools/seedeval.py): the patch applies, the library builds, the unedited pinned suite passes with it, the demonstration\n'
            'fails with it and passes without it. The checks were then run (quick tier, seed 1) on /repo with the patch applied, and the patch undone.\n'
            'Patches are relative to the /repo HEAD at the time of seeding (first wave, -a/-b: 5da832f; second wave, -c/-d: fa07ba2; third wave, -e/-f: 0530883); seven patches whose context\n'
            'lines were changed by later repairs have been rebased (meta.json: rebased; the original is kept as patch.orig.diff).\n\n')
    f.write('| change | property | caught by | checks run | needs, to manifest |\n|---|---|---|---|---|\n')
    for r in rows:
        f.write('| %s | %s | %s | %s | %s |\n' % r)
    live = [r for r in rows if not r[2].startswith('n/a')]
    caught = sum(1 for r in live if not r[2].startswith('—'))
    f.write('\n%d of %d kept changes that still break their property are caught by at least one check in the quick tier (%d kept in all).\n' % (caught, len(live), len(rows)))
print(open('/verif/seeded/RESULTS.md').read()[-400:])
