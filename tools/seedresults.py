#!/usr/bin/env python3
"""Writes /verif/seeded/RESULTS.md from the meta.json files of the kept seeded changes."""
import json, glob, os
rows = []
for m in sorted(glob.glob('/verif/seeded/*/meta.json')):
    d = json.load(open(m))
    c = d.get('confirmation', {})
    checks = c.get('checks', {})
    ran = ', '.join('%s:%s' % (k, {0: 'ok', 1: 'VIOLATION', 2: 'inconclusive'}.get(v['exit'], v['exit'])) for k, v in sorted(checks.items()))
    rows.append((c.get('name', os.path.basename(os.path.dirname(m))), d.get('property', ''), ', '.join(c.get('caught_by', [])) or '— (missed)', ran,
                 d.get('needs_to_manifest', '').replace('\n', ' ')[:230]))
with open('/verif/seeded/RESULTS.md', 'w') as f:
    f.write('# Independently seeded changes: which check catches which\n\n')
    f.write('Every change below was written by a sub-agent that saw only the text of one property and a scratch worktree. It is kept only after\n'
            'confirmation here (tools/seedeval.py): the patch applies, the library builds, the unedited pinned suite passes with it, the demonstration\n'
            'fails with it and passes without it. The checks were then run (quick tier, seed 1) on /repo with the patch applied, and the patch undone.\n\n')
    f.write('| change | property | caught by | checks run | needs, to manifest |\n|---|---|---|---|---|\n')
    for r in rows:
        f.write('| %s | %s | %s | %s | %s |\n' % r)
    caught = sum(1 for r in rows if not r[2].startswith('—'))
    f.write('\n%d of %d kept changes are caught by at least one check in the quick tier.\n' % (caught, len(rows)))
print(open('/verif/seeded/RESULTS.md').read()[-400:])
