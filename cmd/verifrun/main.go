// verifrun is the driver of every check registered in MANIFEST.json.
//
//	verifrun <ID> quick|thorough     run the check of one property
//	verifrun replay <ID> <path>      re-run one saved case without rapid
//	verifrun build-all               compile every check binary once (warms the build cache)
//
// Exit status: 0 property held on everything explored; 1 violation (a line
// "VIOLATION property=<ID> replay=<path>" is printed); 2 inconclusive (build
// failure, timeout, killed worker, broken oracle) with the reason printed.
package main

import (
	"bytes"
	"context"
	"encoding/binary"
	"encoding/json"
	"fmt"
	"os"
	"os/exec"
	"path/filepath"
	"sort"
	"strconv"
	"strings"
	"sync"
	"time"

	"verif/internal/ev"
)

var root = "/verif"

func main() {
	if r := os.Getenv("VERIF_ROOT"); r != "" {
		root = r
	} else if wd, err := os.Getwd(); err == nil {
		if _, err := os.Stat(filepath.Join(wd, "cmd", "verifrun")); err == nil {
			root = wd
		}
	}
	args := os.Args[1:]
	if len(args) == 0 {
		usage()
	}
	switch args[0] {
	case "build-all":
		os.Exit(buildAll())
	case "manifest":
		os.Exit(writeManifest())
	case "replay":
		if len(args) != 3 {
			usage()
		}
		os.Exit(replayCmd(strings.ToUpper(args[1]), args[2]))
	default:
		tier := os.Getenv("VERIF_TIER")
		if len(args) >= 2 {
			tier = args[1]
		}
		if tier != "thorough" {
			tier = "quick"
		}
		os.Exit(runCheck(strings.ToUpper(args[0]), tier))
	}
}

func usage() {
	fmt.Fprintln(os.Stderr, "usage: verifrun <ID> quick|thorough | replay <ID> <path> | build-all")
	os.Exit(2)
}

func goEnv() []string {
	env := os.Environ()
	out := env[:0:0]
	for _, e := range env {
		k := strings.SplitN(e, "=", 2)[0]
		switch k {
		case "GOFLAGS", "GOPROXY", "GOSUMDB", "GOTOOLCHAIN":
			continue
		}
		out = append(out, e)
	}
	return append(out, "GOFLAGS=-mod=mod", "GOPROXY=off", "GOSUMDB=off", "GOTOOLCHAIN=local")
}

func seed() int64 {
	s, err := strconv.ParseInt(strings.TrimSpace(os.Getenv("VERIF_SEED")), 10, 64)
	if err != nil {
		s = 1
	}
	if s == 0 {
		s = 7777777 // rapid treats 0 as "random"
	}
	if s < 0 {
		s = -s
	}
	return s
}

func shardSeed(base int64, build, shard int) int64 {
	v := (base*1000003 + int64(build)*104729 + int64(shard)*7919 + 1) % (1 << 53)
	if v <= 0 {
		v = 1 + int64(shard)
	}
	return v
}

// build compiles the test binary of one build variant.
func build(p *prop, b buildVariant, workdir string) (string, []byte, error) {
	out := filepath.Join(workdir, b.Name+".test")
	args := []string{"test", "-c", "-vet=off", "-o", out}
	if len(b.Tags) > 0 {
		args = append(args, "-tags", strings.Join(b.Tags, ","))
	}
	if b.Race {
		args = append(args, "-race")
	}
	args = append(args, "./checks/"+p.Pkg)
	cmd := exec.Command("go", args...)
	cmd.Dir = root
	cmd.Env = goEnv()
	o, err := cmd.CombinedOutput()
	return out, o, err
}

func buildAll() int {
	rc := 0
	wd := filepath.Join(root, "work", "buildall")
	_ = os.MkdirAll(wd, 0o755)
	defer os.RemoveAll(wd)
	for _, p := range props {
		for _, b := range p.Builds {
			if _, o, err := build(p, b, wd); err != nil {
				fmt.Printf("build %s/%s failed: %v\n%s\n", p.ID, b.Name, err, o)
				rc = 2
			}
		}
	}
	return rc
}

type procResult struct {
	Name     string
	Exit     int
	TimedOut bool
	Output   []byte
	Wall     time.Duration
}

func runProc(ctx context.Context, name, bin string, args []string, env []string, dir string, logPath string) procResult {
	start := time.Now()
	cmd := exec.CommandContext(ctx, bin, args...)
	cmd.Dir = dir
	// temporary files of the test binaries (native fuzzing creates some) stay inside the work directory, which is removed afterwards
	tmp := filepath.Join(dir, "tmp")
	_ = os.MkdirAll(tmp, 0o755)
	cmd.Env = append(append(goEnv(), "TMPDIR="+tmp), env...)
	var buf bytes.Buffer
	cmd.Stdout = &buf
	cmd.Stderr = &buf
	err := cmd.Run()
	res := procResult{Name: name, Output: buf.Bytes(), Wall: time.Since(start)}
	if err != nil {
		res.Exit = -1
		if ee, ok := err.(*exec.ExitError); ok {
			res.Exit = ee.ExitCode()
		}
		if ctx.Err() != nil {
			res.TimedOut = true
		}
	}
	if logPath != "" {
		_ = os.WriteFile(logPath, res.Output, 0o644)
	}
	return res
}

type shardStats struct {
	Property    string            `json:"property"`
	Evaluations int64             `json:"evaluations"`
	Nontrivial  int64             `json:"nontrivial_total"`
	Distinct    int64             `json:"distinct_nontrivial"`
	Failures    int64             `json:"failures"`
	Classes     map[string]int64  `json:"classes"`
	Known       map[string]int64  `json:"known_finding_hits"`
	Excluded    map[string]int64  `json:"excluded"`
	Counters    map[string]int64  `json:"counters"`
	Samples     []json.RawMessage `json:"samples"`
	Notes       []string          `json:"notes"`
	Rule        string            `json:"rule"`
	Assumptions []string          `json:"assumptions"`
}

type merged struct {
	shardStats
	hashes map[uint64]struct{}
}

func newMerged() *merged {
	return &merged{shardStats: shardStats{Classes: map[string]int64{}, Known: map[string]int64{}, Excluded: map[string]int64{}, Counters: map[string]int64{}}, hashes: map[uint64]struct{}{}}
}

func (m *merged) add(statsPath, hashPath string, wantSamples int) {
	b, err := os.ReadFile(statsPath)
	if err != nil {
		return
	}
	var s shardStats
	if json.Unmarshal(b, &s) != nil {
		return
	}
	m.Evaluations += s.Evaluations
	m.Nontrivial += s.Nontrivial
	m.Failures += s.Failures
	for k, v := range s.Classes {
		m.Classes[k] += v
	}
	for k, v := range s.Known {
		m.Known[k] += v
	}
	for k, v := range s.Excluded {
		m.Excluded[k] += v
	}
	for k, v := range s.Counters {
		m.Counters[k] += v
	}
	for _, smp := range s.Samples {
		if len(m.Samples) < wantSamples {
			m.Samples = append(m.Samples, smp)
		}
	}
	for _, n := range s.Notes {
		dup := false
		for _, x := range m.Notes {
			dup = dup || x == n
		}
		if !dup && len(m.Notes) < 40 {
			m.Notes = append(m.Notes, n)
		}
	}
	if s.Rule != "" {
		m.Rule = s.Rule
	}
	if len(s.Assumptions) > 0 {
		m.Assumptions = s.Assumptions
	}
	if hb, err := os.ReadFile(hashPath); err == nil {
		for i := 0; i+8 <= len(hb); i += 8 {
			m.hashes[binary.LittleEndian.Uint64(hb[i:])] = struct{}{}
		}
	}
}

type violation struct {
	Replay string
	Why    string
}

func copyFile(src, dst string) error {
	b, err := os.ReadFile(src)
	if err != nil {
		return err
	}
	_ = os.MkdirAll(filepath.Dir(dst), 0o755)
	return os.WriteFile(dst, b, 0o644)
}

func classifyOutput(out []byte) string {
	s := string(out)
	switch {
	case strings.Contains(s, "panic: test timed out"):
		return "timeout"
	case strings.Contains(s, "WARNING: DATA RACE") || strings.Contains(s, "race detected during execution"):
		return "data race"
	case strings.Contains(s, "fatal error:"):
		i := strings.Index(s, "fatal error:")
		return strings.TrimSpace(strings.SplitN(s[i:], "\n", 2)[0])
	case strings.Contains(s, "panic:"):
		i := strings.Index(s, "panic:")
		return strings.TrimSpace(strings.SplitN(s[i:], "\n", 2)[0])
	case strings.Contains(s, "ORACLE-BROKEN"):
		return "oracle broken"
	case strings.Contains(s, "cannot allocate memory") || strings.Contains(s, "out of memory"):
		return "out of memory"
	}
	return ""
}

func tail(b []byte, n int) string {
	if len(b) > n {
		b = b[len(b)-n:]
	}
	return string(b)
}

func head(b []byte, n int) string {
	if len(b) > n {
		b = b[:n]
	}
	return string(b)
}

func runCheck(id, tier string) int {
	p := findProp(id)
	if p == nil {
		fmt.Fprintf(os.Stderr, "unknown property %s\n", id)
		return 2
	}
	start := time.Now()
	base := seed()
	work := filepath.Join(root, "work", id+"-"+tier)
	_ = os.RemoveAll(work)
	if err := os.MkdirAll(work, 0o755); err != nil {
		fmt.Println("cannot create work dir:", err)
		return 2
	}
	defer os.RemoveAll(work)
	_ = os.MkdirAll(filepath.Join(root, "evidence"), 0o755)
	_ = os.MkdirAll(filepath.Join(root, "replays"), 0o755)

	var inconclusive []string
	var violations []violation
	var knownLines []string

	// 1. build
	bins := make([]string, len(p.Builds))
	for i, b := range p.Builds {
		bin, out, err := build(p, b, work)
		if err != nil {
			fmt.Printf("INCONCLUSIVE property=%s build %s failed: %v\n%s\n", id, b.Name, err, out)
			writeEvidence(p, tier, base, newMerged(), start, nil, []string{"build failed"}, nil, nil)
			return 2
		}
		bins[i] = bin
	}

	m := newMerged()
	kf, _ := ev.LoadKnownFile(filepath.Join(root, "known_findings.json"))

	// 2. replay tier: regress files (must pass, matchers active), then witnesses of open findings (expected to fail with matchers off)
	regress, _ := filepath.Glob(filepath.Join(root, "checks", p.Pkg, "testdata", "regress", "*.json"))
	sort.Strings(regress)
	replayed := 0
	for i, b := range p.Builds {
		if len(regress) == 0 {
			break
		}
		ctx, cancel := context.WithTimeout(context.Background(), 10*time.Minute)
		r := runProc(ctx, "replay-"+b.Name, bins[i], []string{"-test.run", "^TestReplay$", "-test.v", "-test.timeout", "9m"},
			[]string{"VERIF_REPLAY=" + strings.Join(regress, string(os.PathListSeparator)), "VERIF_TIER=" + tier,
				"VERIF_STATS=" + filepath.Join(work, "replay-"+b.Name+".json"), "VERIF_HASHES=" + filepath.Join(work, "replay-"+b.Name+".hashes")},
			work, filepath.Join(work, "replay-"+b.Name+".log"))
		cancel()
		replayed += len(regress)
		for _, line := range strings.Split(string(r.Output), "\n") {
			f := strings.Fields(line)
			if len(f) >= 3 && f[0] == "REPLAY" && (f[2] == "FAIL" || f[2] == "ERROR") {
				violations = append(violations, violation{Replay: f[1], Why: "regression input fails: " + line})
			}
		}
		if r.Exit != 0 && len(violations) == 0 {
			why := classifyOutput(r.Output)
			if r.TimedOut || why == "timeout" {
				inconclusive = append(inconclusive, "replay tier timed out")
			} else {
				// crashed on a regress file: find the last REPLAY-START
				last := ""
				for _, line := range strings.Split(string(r.Output), "\n") {
					if strings.HasPrefix(line, "REPLAY-START ") {
						last = strings.TrimSpace(strings.TrimPrefix(line, "REPLAY-START "))
					}
				}
				if last == "" {
					inconclusive = append(inconclusive, "replay tier died: "+why+" "+tail(r.Output, 400))
				} else {
					violations = append(violations, violation{Replay: last, Why: "regression input kills the process: " + why})
				}
			}
		}
		m.add(filepath.Join(work, "replay-"+b.Name+".json"), filepath.Join(work, "replay-"+b.Name+".hashes"), 0)
	}
	for _, f := range kf.Findings {
		if f.Status != "open" {
			continue
		}
		mine := false
		for _, pr := range f.Properties {
			mine = mine || pr == id
		}
		if !mine {
			continue
		}
		ws := f.Witnesses[id]
		if len(ws) == 0 {
			knownLines = append(knownLines, fmt.Sprintf("KNOWN-FINDING: property=%s %s: %s (no witness for this property; matcher %s)", id, f.ID, f.What, f.Matcher))
			continue
		}
		reproduced := false
		for _, w := range ws {
			wp := filepath.Join(root, w)
			ctx, cancel := context.WithTimeout(context.Background(), 5*time.Minute)
			r := runProc(ctx, "witness", bins[0], []string{"-test.run", "^TestReplay$", "-test.v", "-test.timeout", "4m"},
				[]string{"VERIF_REPLAY=" + wp, "VERIF_NO_KNOWN=1", "VERIF_REPLAY_EXPECT=fail-ok", "VERIF_TIER=" + tier}, work, "")
			cancel()
			replayed++
			if strings.Contains(string(r.Output), "REPLAY "+wp+" FAIL") || (f.Crash && r.Exit != 0 && !r.TimedOut) {
				reproduced = true
			}
		}
		if reproduced {
			knownLines = append(knownLines, fmt.Sprintf("KNOWN-FINDING: property=%s %s: %s", id, f.ID, f.What))
		} else {
			fmt.Printf("NOTE property=%s listed finding %s no longer reproduces from its witness\n", id, f.ID)
		}
	}

	// 3. generated tier
	bud := p.Quick
	if tier == "thorough" {
		bud = p.Thorough
	}
	type job struct {
		build, shard int
	}
	var jobs []job
	for bi, b := range p.Builds {
		n := bud.Shards
		if b.ShardShare > 0 {
			n = int(float64(bud.Shards)*b.ShardShare + 0.5)
			if n < 1 {
				n = 1
			}
		}
		for k := 0; k < n; k++ {
			jobs = append(jobs, job{bi, k})
		}
	}
	par := bud.Parallel
	if par <= 0 {
		par = 16
	}
	sem := make(chan struct{}, par)
	var wg sync.WaitGroup
	var mu sync.Mutex
	var seeds []int64
	results := make([]procResult, len(jobs))
	if len(violations) == 0 {
		for ji, j := range jobs {
			wg.Add(1)
			sem <- struct{}{}
			go func(ji int, j job) {
				defer wg.Done()
				defer func() { <-sem }()
				b := p.Builds[j.build]
				name := fmt.Sprintf("%s-%d", b.Name, j.shard)
				sd := shardSeed(base, j.build, j.shard)
				mu.Lock()
				seeds = append(seeds, sd)
				mu.Unlock()
				dir := filepath.Join(work, name)
				_ = os.MkdirAll(dir, 0o755)
				checks := bud.Checks
				if b.ChecksScale > 0 {
					checks = int(float64(checks) * b.ChecksScale)
					if checks < 1 {
						checks = 1
					}
				}
				to := time.Duration(bud.TimeoutS) * time.Second
				ctx, cancel := context.WithTimeout(context.Background(), to+30*time.Second)
				defer cancel()
				args := []string{"-test.run", "^TestProp", "-test.timeout", to.String(),
					"-rapid.seed", strconv.FormatInt(sd, 10), "-rapid.checks", strconv.Itoa(checks),
					"-rapid.nofailfile", "-rapid.shrinktime", bud.shrink()}
				env := []string{"VERIF_TIER=" + tier, "VERIF_SHARD=" + strconv.Itoa(j.shard), "VERIF_NSHARDS=" + strconv.Itoa(len(jobs)),
					"VERIF_SEED_EFFECTIVE=" + strconv.FormatInt(sd, 10),
					"VERIF_STATS=" + filepath.Join(dir, "stats.json"), "VERIF_HASHES=" + filepath.Join(dir, "hashes.bin"),
					"VERIF_CURRENT=" + filepath.Join(dir, "current.json"), "VERIF_FAIL=" + filepath.Join(dir, "fail.json"),
					"VERIF_WORK=" + dir}
				results[ji] = runProc(ctx, name, bins[j.build], args, env, dir, filepath.Join(dir, "log.txt"))
			}(ji, j)
		}
		wg.Wait()
	}
	for ji, j := range jobs {
		r := results[ji]
		if r.Name == "" {
			continue
		}
		dir := filepath.Join(work, r.Name)
		m.add(filepath.Join(dir, "stats.json"), filepath.Join(dir, "hashes.bin"), 10)
		if r.Exit == 0 {
			continue
		}
		why := classifyOutput(r.Output)
		failFile := filepath.Join(dir, "fail.json")
		curFile := filepath.Join(dir, "current.json")
		stamp := fmt.Sprintf("%s-%s-seed%d-%s", id, tier, base, r.Name)
		switch {
		case fileExists(failFile) && why != "timeout":
			dst := filepath.Join(root, "replays", stamp+".json")
			_ = copyFile(failFile, dst)
			msg := failMessage(dst)
			violations = append(violations, violation{Replay: dst, Why: msg})
		case why == "timeout" || r.TimedOut:
			inconclusive = append(inconclusive, fmt.Sprintf("shard %s hit its time limit (%ds)", r.Name, bud.TimeoutS))
		case why == "oracle broken":
			inconclusive = append(inconclusive, "oracle calibration failed: "+tail(r.Output, 600))
		case why == "out of memory":
			inconclusive = append(inconclusive, "shard "+r.Name+" ran out of memory")
		case why != "":
			dst := filepath.Join(root, "replays", stamp+".json")
			if fileExists(curFile) {
				_ = copyFile(curFile, dst)
			} else {
				dst = filepath.Join(root, "replays", stamp+".log")
			}
			_ = os.WriteFile(filepath.Join(root, "replays", stamp+".log"), r.Output, 0o644)
			violations = append(violations, violation{Replay: dst, Why: why + " (process output saved next to the replay file)"})
		case r.Exit == -1:
			inconclusive = append(inconclusive, "shard "+r.Name+" was killed: "+tail(r.Output, 300))
		default:
			// test failed without a recorded case: harness-level failure
			_ = os.WriteFile(filepath.Join(root, "replays", stamp+".log"), r.Output, 0o644)
			if strings.Contains(string(r.Output), "property "+id+" violated") {
				violations = append(violations, violation{Replay: filepath.Join(root, "replays", stamp+".log"), Why: "property failed (see log)"})
			} else {
				inconclusive = append(inconclusive, "shard "+r.Name+" failed without a case: "+tail(r.Output, 600))
			}
		}
		_ = j
	}

	// 4. native fuzzing (thorough only)
	fuzzExecs := int64(0)
	if tier == "thorough" && p.Fuzz != nil && len(violations) == 0 {
		dir := filepath.Join(work, "fuzz")
		_ = os.MkdirAll(filepath.Join(dir, "cache"), 0o755)
		to := time.Duration(p.Fuzz.Seconds) * time.Second
		ctx, cancel := context.WithTimeout(context.Background(), to+3*time.Minute)
		args := []string{"-test.run", "^$", "-test.fuzz", "^" + p.Fuzz.Target + "$", "-test.fuzztime", to.String(),
			"-test.fuzzcachedir", filepath.Join(dir, "cache"), "-test.timeout", (to + 2*time.Minute).String()}
		env := []string{"VERIF_TIER=" + tier, "VERIF_STATS=" + filepath.Join(dir, "stats-%p.json"), "VERIF_HASHES=" + filepath.Join(dir, "hashes-%p.bin"),
			"VERIF_CURRENT=" + filepath.Join(dir, "current-%p.json"), "VERIF_FAIL=" + filepath.Join(dir, "fail.json"), "VERIF_WORK=" + dir}
		r := runProc(ctx, "fuzz", bins[0], args, env, dir, filepath.Join(dir, "log.txt"))
		cancel()
		sts, _ := filepath.Glob(filepath.Join(dir, "stats-*.json"))
		for _, s := range sts {
			h := strings.Replace(strings.Replace(s, "stats-", "hashes-", 1), ".json", ".bin", 1)
			before := m.Evaluations
			m.add(s, h, 10)
			fuzzExecs += m.Evaluations - before
		}
		if r.Exit != 0 {
			failFile := filepath.Join(dir, "fail.json")
			stamp := fmt.Sprintf("%s-%s-seed%d-fuzz", id, tier, base)
			why := classifyOutput(r.Output)
			if fileExists(failFile) {
				dst := filepath.Join(root, "replays", stamp+".json")
				_ = copyFile(failFile, dst)
				violations = append(violations, violation{Replay: dst, Why: "found by native fuzzing: " + failMessage(dst)})
			} else if why == "timeout" || r.TimedOut {
				inconclusive = append(inconclusive, "fuzzing hit its time limit")
			} else {
				_ = os.WriteFile(filepath.Join(root, "replays", stamp+".log"), r.Output, 0o644)
				curs, _ := filepath.Glob(filepath.Join(dir, "current-*.json"))
				if why != "" && len(curs) > 0 {
					dst := filepath.Join(root, "replays", stamp+".json")
					_ = copyFile(curs[0], dst)
					violations = append(violations, violation{Replay: dst, Why: "fuzz worker died: " + why})
				} else {
					inconclusive = append(inconclusive, "fuzz run failed without a case: "+tail(r.Output, 600))
				}
			}
		}
	}
	// 4b. audit of the reference model against python-jsonschema (thorough tier of C01; evidence about the oracle, not a deciding step)
	if tier == "thorough" && p.Audit && len(violations) == 0 {
		dump := filepath.Join(work, "audit.jsonl")
		ctx, cancel := context.WithTimeout(context.Background(), 10*time.Minute)
		runProc(ctx, "auditdump", bins[0], []string{"-test.run", "^TestAuditDump$", "-rapid.checks", "8000", "-rapid.seed", strconv.FormatInt(base, 10), "-rapid.nofailfile", "-test.timeout", "9m"},
			[]string{"VERIF_AUDIT_OUT=" + dump, "VERIF_TIER=" + tier}, work, "")
		cancel()
		cmd := exec.Command(filepath.Join(root, "tools", "audit_refmodel.py"), dump)
		cmd.Dir = root
		if o, err := cmd.Output(); err == nil {
			var res struct {
				Compared, Agree, Skipped int64
				Disagreements            []json.RawMessage
			}
			if json.Unmarshal(bytes.TrimSpace(o), &res) == nil {
				m.Counters["oracle_audit_python_jsonschema_pairs_compared"] = res.Compared
				m.Counters["oracle_audit_python_jsonschema_pairs_agreeing"] = res.Agree
				m.Counters["oracle_audit_python_jsonschema_pairs_skipped"] = res.Skipped
				for i, d := range res.Disagreements {
					if i < 5 {
						m.Notes = append(m.Notes, "oracle audit disagreement with python-jsonschema Draft4Validator: "+head(d, 600))
					}
				}
			}
		} else {
			m.Notes = append(m.Notes, "oracle audit against python-jsonschema could not be run: "+err.Error())
		}
	}
	if fuzzExecs > 0 {
		m.Counters["native_fuzz_property_executions"] = fuzzExecs
	}
	m.Counters["replay_tier_files"] = int64(replayed)

	// 5. confirm violations by replay (information only; a violation stays one)
	for i := range violations {
		v := &violations[i]
		if !strings.HasSuffix(v.Replay, ".json") {
			continue
		}
		ctx, cancel := context.WithTimeout(context.Background(), 5*time.Minute)
		r := runProc(ctx, "confirm", bins[0], []string{"-test.run", "^TestReplay$", "-test.v", "-test.timeout", "4m"},
			[]string{"VERIF_REPLAY=" + v.Replay, "VERIF_REPLAY_EXPECT=fail-ok", "VERIF_TIER=" + tier}, work, "")
		cancel()
		switch {
		case strings.Contains(string(r.Output), "REPLAY "+v.Replay+" FAIL"):
			v.Why += " [reproduced by replay]"
		case r.Exit != 0:
			v.Why += " [replay kills the process: " + classifyOutput(r.Output) + "]"
		default:
			v.Why += " [not reproduced by a single replay: schedule- or history-dependent]"
		}
	}

	sort.Slice(seeds, func(i, j int) bool { return seeds[i] < seeds[j] })
	writeEvidence(p, tier, base, m, start, seeds, inconclusive, violations, knownLines)

	for _, l := range knownLines {
		fmt.Println(l)
	}
	fmt.Printf("SUMMARY property=%s tier=%s seed=%d evaluations=%d distinct_nontrivial=%d known_hits=%v wall=%.1fs\n",
		id, tier, base, m.Evaluations, len(m.hashes), m.Known, time.Since(start).Seconds())
	if len(violations) > 0 {
		for i, v := range violations {
			if i >= 3 {
				fmt.Printf("(%d further violating shards; see evidence/%s.json)\n", len(violations)-3, id)
				break
			}
			fmt.Printf("VIOLATION property=%s replay=%s\n  reason: %s\n", id, v.Replay, head([]byte(v.Why), 1500))
		}
		return 1
	}
	if len(inconclusive) > 0 {
		for _, s := range inconclusive {
			fmt.Printf("INCONCLUSIVE property=%s %s\n", id, s)
		}
		return 2
	}
	minEval := int64(1)
	if m.Evaluations < minEval || len(m.hashes) < 2 {
		fmt.Printf("INCONCLUSIVE property=%s too few cases executed (evaluations=%d distinct_nontrivial=%d)\n", id, m.Evaluations, len(m.hashes))
		return 2
	}
	fmt.Printf("OK property=%s\n", id)
	return 0
}

func failMessage(path string) string {
	b, err := os.ReadFile(path)
	if err != nil {
		return ""
	}
	var rf ev.ReplayFile
	if json.Unmarshal(b, &rf) != nil {
		return ""
	}
	return rf.Fail
}

func fileExists(p string) bool {
	_, err := os.Stat(p)
	return err == nil
}

func writeEvidence(p *prop, tier string, base int64, m *merged, start time.Time, seeds []int64, inconclusive []string, violations []violation, knownLines []string) {
	cov := map[string]any{
		"evaluations":              m.Evaluations,
		"distinct_nontrivial":      len(m.hashes),
		"nontrivial_total":         m.Nontrivial,
		"rule":                     firstNonEmpty(m.Rule, p.Rule),
		"samples":                  m.Samples,
		"class_histogram":          m.Classes,
		"known_finding_hits":       m.Known,
		"excluded_by_domain":       m.Excluded,
		"counters":                 m.Counters,
		"shard_seeds":              seeds,
		"notes":                    m.Notes,
		"inconclusive":             inconclusive,
		"known_finding_lines":      knownLines,
		"builds":                   p.buildNames(),
		"go_toolchain":             "go1.23.5 (GOTOOLCHAIN=local)",
		"deciding_technique":       p.Technique,
		"exhaustive":               false,
		"violations_detail":        violationsDetail(violations),
		"generated_by":             "cmd/verifrun from per-shard statistics written by checks/" + p.Pkg,
		"shards":                   len(seeds),
		"rapid_checks_per_shard":   map[string]int{"quick": p.Quick.Checks, "thorough": p.Thorough.Checks}[tier],
		"native_fuzz_target":       fuzzName(p, tier),
		"repo_head":                repoHead(),
		"repo_dirty":               repoDirty(),
		"verif_seed_env":           os.Getenv("VERIF_SEED"),
		"timeout_s_per_shard":      map[string]int{"quick": p.Quick.TimeoutS, "thorough": p.Thorough.TimeoutS}[tier],
		"samples_are":              "non-trivial cases as executed (JSON form of the check's case type)",
		"distinct_counting_method": "FNV-64a hash of the JSON form of each non-trivial case; union over shards",
	}
	if m.Samples == nil {
		cov["samples"] = []any{}
	}
	e := map[string]any{
		"property_id": p.ID,
		"tier":        tier,
		"seed":        base,
		"level":       p.Level,
		"coverage":    cov,
		"assumptions": append(append([]string{}, m.Assumptions...), p.Assumptions...),
		"wall_s":      float64(int(time.Since(start).Seconds()*10)) / 10,
		"violations":  len(violations),
	}
	b, _ := json.MarshalIndent(e, "", " ")
	_ = os.WriteFile(filepath.Join(root, "evidence", p.ID+".json"), append(b, '\n'), 0o644)
}

func violationsDetail(vs []violation) []map[string]string {
	out := []map[string]string{}
	for _, v := range vs {
		out = append(out, map[string]string{"replay": v.Replay, "why": head([]byte(v.Why), 800)})
	}
	return out
}

func fuzzName(p *prop, tier string) string {
	if tier == "thorough" && p.Fuzz != nil {
		return fmt.Sprintf("%s for %ds", p.Fuzz.Target, p.Fuzz.Seconds)
	}
	return ""
}

func firstNonEmpty(a ...string) string {
	for _, s := range a {
		if s != "" {
			return s
		}
	}
	return ""
}

func repoHead() string {
	o, err := exec.Command("git", "-C", "/repo", "rev-parse", "--short", "HEAD").Output()
	if err != nil {
		return ""
	}
	return strings.TrimSpace(string(o))
}

func repoDirty() bool {
	o, err := exec.Command("git", "-C", "/repo", "status", "--porcelain", "--untracked-files=no").Output()
	return err == nil && len(bytes.TrimSpace(o)) > 0
}

func replayCmd(id, path string) int {
	p := findProp(id)
	if p == nil {
		fmt.Fprintf(os.Stderr, "unknown property %s\n", id)
		return 2
	}
	abs, err := filepath.Abs(path)
	if err != nil {
		abs = path
	}
	work := filepath.Join(root, "work", id+"-replay-"+strconv.Itoa(os.Getpid()))
	_ = os.MkdirAll(work, 0o755)
	defer os.RemoveAll(work)
	rc := 0
	for _, b := range p.Builds {
		bin, out, err := build(p, b, work)
		if err != nil {
			fmt.Printf("INCONCLUSIVE property=%s build failed: %v\n%s\n", id, err, out)
			return 2
		}
		ctx, cancel := context.WithTimeout(context.Background(), 10*time.Minute)
		r := runProc(ctx, "replay", bin, []string{"-test.run", "^TestReplay$", "-test.v", "-test.timeout", "9m"},
			[]string{"VERIF_REPLAY=" + abs, "VERIF_REPLAY_EXPECT=fail-ok"}, work, "")
		cancel()
		fmt.Printf("--- build %s\n%s\n", b.Name, tail(r.Output, 4000))
		if strings.Contains(string(r.Output), "REPLAY "+abs+" FAIL") || (r.Exit != 0 && classifyOutput(r.Output) != "" && classifyOutput(r.Output) != "timeout") {
			rc = 1
		}
	}
	if rc == 1 {
		fmt.Printf("VIOLATION property=%s replay=%s\n", id, abs)
	}
	return rc
}
