package main

import (
	"encoding/json"
	"fmt"
	"os"
	"path/filepath"
	"sort"
)

// hookCommits lists the commits of /repo that add the verif-guarded hooks.
var hookCommits = []string{"25147e36604c2e1b424f70bb84a4eebcc088c7da", "602363674978601f25d0cec6ea0013c176490252"}

var notApplicable = map[string]string{}

func writeManifest() int {
	type lvl struct {
		Category  string `json:"category"`
		Text      string `json:"text"`
		DesignRef string `json:"design_ref,omitempty"`
	}
	type chk struct {
		PropertyID string `json:"property_id"`
		Quick      string `json:"quick_cmd"`
		Thorough   string `json:"thorough_cmd"`
		Evidence   string `json:"evidence_file"`
		Replay     string `json:"replay_cmd_template"`
		Engine     string `json:"engine"`
		Level      lvl    `json:"level_claimed"`
		Note       string `json:"level_note"`
		Technique  string `json:"technique"`
	}
	var checks []chk
	claimed := map[string]bool{}
	for _, p := range props {
		claimed[p.ID] = true
		checks = append(checks, chk{
			PropertyID: p.ID,
			Quick:      "bin/verifrun " + p.ID + " quick",
			Thorough:   "bin/verifrun " + p.ID + " thorough",
			Evidence:   "/verif/evidence/" + p.ID + ".json",
			Replay:     "bin/verifrun replay " + p.ID + " {path}",
			Engine:     "verifrun",
			Level:      lvl{Category: p.Level, Text: p.LevelText, DesignRef: "DESIGN.md §4 " + p.ID},
			Note:       p.LevelNote,
			Technique:  p.Technique,
		})
	}
	sort.Slice(checks, func(i, j int) bool { return checks[i].PropertyID < checks[j].PropertyID })
	type na struct {
		PropertyID string `json:"property_id"`
		Reason     string `json:"reason"`
	}
	nas := []na{}
	for i := 1; i <= 20; i++ {
		id := fmt.Sprintf("C%02d", i)
		if claimed[id] {
			continue
		}
		r := notApplicable[id]
		if r == "" {
			r = "check not built yet in this revision of /verif (planned in DESIGN.md §4); not claimed until it runs clean on the unchanged tree"
		}
		nas = append(nas, na{id, r})
	}
	m := map[string]any{
		"version":   1,
		"setup_cmd": "cd /verif && GOFLAGS=-mod=mod GOPROXY=off GOSUMDB=off GOTOOLCHAIN=local go build -o bin/verifrun ./cmd/verifrun && bin/verifrun build-all",
		"hooks": map[string]any{
			"guard":            "verif",
			"enable":           "go test -c -tags verif (plus validatedebug for the double-redeem runs of C04/C11, plus -race for C05/C15); every check rebuilds its test binary from /repo's working tree through the module replace directive in /verif/go.mod",
			"baseline_off_cmd": "cd /repo && go test -vet=off -count=1 -timeout 25m ./...",
			"source_commits":   hookCommits,
			"add_only":         true,
		},
		"engines": []map[string]any{{
			"name": "verifrun", "path": "/verif/cmd/verifrun",
			"serves_properties": ids(),
			"kind_free_text":    "driver: builds checks/cNN against /repo (go test -c), runs the replay tier, shards pgregory.net/rapid v1.3.0 properties over processes with seeds derived from VERIF_SEED, runs native go fuzzing in the thorough tier where configured, merges per-shard statistics into evidence/<id>.json, prints verdict lines",
		}},
		"checks":         checks,
		"not_applicable": nas,
		"notes":          "Technique family: property-based testing and fuzzing only. Known findings: /verif/known_findings.json. Seeded changes used for sensitivity: /verif/seeded/.",
	}
	b, _ := json.MarshalIndent(m, "", " ")
	if err := os.WriteFile(filepath.Join(root, "MANIFEST.json"), append(b, '\n'), 0o644); err != nil {
		fmt.Println(err)
		return 2
	}
	return 0
}

func ids() []string {
	var out []string
	for _, p := range props {
		out = append(out, p.ID)
	}
	sort.Strings(out)
	return out
}
