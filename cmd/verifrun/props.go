package main

type buildVariant struct {
	Name string
	Tags []string
	Race bool
	// ShardShare is the fraction of the tier's shards given to this build (0 = all of them).
	ShardShare float64
	// ChecksScale scales the per-shard case count for this build (0 = 1).
	ChecksScale float64
}

type budget struct {
	Shards   int
	Checks   int // rapid cases per shard
	TimeoutS int // go test -timeout per shard
	Parallel int // processes at once (0 = 16)
	ShrinkS  int // rapid shrink time in seconds (0 = 20)
}

func (b budget) shrink() string {
	s := b.ShrinkS
	if s <= 0 {
		s = 20
	}
	return itoa(s) + "s"
}

func itoa(i int) string {
	if i == 0 {
		return "0"
	}
	neg := i < 0
	if neg {
		i = -i
	}
	var b []byte
	for i > 0 {
		b = append([]byte{byte('0' + i%10)}, b...)
		i /= 10
	}
	if neg {
		b = append([]byte{'-'}, b...)
	}
	return string(b)
}

type fuzzCfg struct {
	Target  string
	Seconds int
}

type prop struct {
	ID          string
	Pkg         string
	Level       string
	Technique   string
	LevelText   string
	LevelNote   string
	Rule        string // fallback; the check normally supplies its own through ev.Describe
	Assumptions []string
	Builds      []buildVariant
	Quick       budget
	Thorough    budget
	Fuzz        *fuzzCfg
	// Audit runs the python-jsonschema audit of the reference model in the thorough tier.
	Audit bool
}

func (p *prop) buildNames() []string {
	var out []string
	for _, b := range p.Builds {
		n := b.Name + " tags=" + join(b.Tags)
		if b.Race {
			n += " -race"
		}
		out = append(out, n)
	}
	return out
}

func join(s []string) string {
	out := ""
	for i, x := range s {
		if i > 0 {
			out += ","
		}
		out += x
	}
	return out
}

func findProp(id string) *prop {
	for _, p := range props {
		if p.ID == id {
			return p
		}
	}
	return nil
}

var plain = []buildVariant{{Name: "plain", Tags: []string{"verif"}}}

var trusted = []string{
	"trusted base: Go 1.23.5 toolchain, pgregory.net/rapid v1.3.0, encoding/json, math/big, regexp, this harness",
	"absence is not established: the property held on the cases reported here",
}

var props = []*prop{
	{
		ID: "C01", Pkg: "c01", Level: "exploration",
		Technique:   "property-based differential testing (rapid; native go fuzzing in the thorough tier) against an independent draft-4 reference evaluator",
		LevelText:   "Generated (schema, instance) pairs over the whole supported vocabulary, each judged by the library through both entry points and by an independent reference evaluator with exact rational arithmetic that is re-calibrated on every run against the JSON-Schema-Test-Suite. Exploration: verdict equality held on every generated pair outside the exactly-replicated open findings.",
		LevelNote:   "Trusted: internal/refmodel (about 400 lines, shares no code with the library; calibrated against /repo/fixtures/jsonschema_suite on each run), the format registry object shared by both sides, Go regexp, rapid. Open findings are replicated exactly in the model (deviation modes), so a different deviation is still reported.",
		Assumptions: trusted,
		Builds:      plain,
		Quick:       budget{Shards: 14, Checks: 20000, TimeoutS: 400},
		Thorough:    budget{Shards: 14, Checks: 150000, TimeoutS: 3000},
		Fuzz:        &fuzzCfg{Target: "FuzzC01", Seconds: 240},
		Audit:       true,
	},
	{
		ID: "C02", Pkg: "c02", Level: "exploration",
		Technique:   "property-based differential testing (rapid): the library's acceptance of structurally edited specifications against the official Swagger 2.0 JSON schema evaluated by the independent draft-4 reference evaluator",
		LevelText:   "Generated specifications and repository fixtures, unedited or altered by 1..4 structural edits; whenever spec validation reports no error (either continue-on-errors setting), the raw document must be valid against the Swagger 2.0 schema per the reference evaluator (references into draft-04 resolved); open verdict findings are replicated exactly so that only new deviations are reported.",
		LevelNote:   "Trusted: testdata/swagger-2.0-schema.json and jsonschema-draft-04.json (verbatim copies from go-openapi/spec v0.21.0), internal/refmodel (calibrated per run on the JSON-Schema-Test-Suite and on the petstore fixture), strfmt.Default for uri/email formats.",
		Assumptions: trusted,
		Builds:      plain,
		Quick:       budget{Shards: 14, Checks: 55, TimeoutS: 600, ShrinkS: 30},
		Thorough:    budget{Shards: 14, Checks: 900, TimeoutS: 5000, ShrinkS: 60},
	},
	{
		ID: "C03", Pkg: "c03", Level: "exploration",
		Technique:   "property-based testing (rapid) over a specification grammar that is valid by construction, with rule-breaking edits whose documented message class is the expected outcome",
		LevelText:   "Specifications generated from a typed grammar are accepted in all four configurations (continue-on-errors x strict path uniqueness); 32 kinds of single-rule-breaking edits (0..2 per case, chosen uniformly) must each produce an error, and with continue-on-errors the edit's own documented message; a control edit that breaks nothing must stay accepted.",
		LevelNote:   "Trusted: the reading of the documented rules encoded in internal/gen/spec.go and specedit.go (calibrated: unedited documents are accepted by the unchanged library), message classes matched against the exported format constants of spec_messages.go.",
		Assumptions: trusted,
		Builds:      plain,
		Quick:       budget{Shards: 14, Checks: 36, TimeoutS: 600, ShrinkS: 30},
		Thorough:    budget{Shards: 14, Checks: 500, TimeoutS: 5000, ShrinkS: 60},
	},
	{
		ID: "C04", Pkg: "c04", Level: "exploration",
		Technique:   "stateful property-based testing (rapid) with fault-amplifying instrumentation: every object handed back to a pool is scribbled at that instant (verif hook); differential against the same calls with recycling off from reset pools; the repository's validatedebug pools detect double redeem",
		LevelText:   "Generated histories mixing AgainstSchema, one-shot recycling schema/parameter/header validators and validate.Spec, with early-exit inputs; each step's outcome must equal the outcome of the same call computed beforehand with recycling off (public option and pools in swallow mode); returned errors are re-read at the end; half of the shards use the validatedebug pools. Scribbling (two polarities, off in a third of the cases) turns any use-after-redeem or forgotten field into a deterministic outcome difference; after every step the result object that all validations share (what a nil validator returns) must still read: no message, match count 1.",
		LevelNote:   "Trusted: the 3-line redeem hook in each Redeem* function (tag verif), internal/scribble (writes only the redeemed object's own fields), the soundness argument of DESIGN.md 2.2 (a redeemed object may not be read; constructors assign every field).",
		Assumptions: trusted,
		Builds: []buildVariant{
			{Name: "plain", Tags: []string{"verif"}, ShardShare: 0.5},
			{Name: "debug", Tags: []string{"verif", "validatedebug"}, ShardShare: 0.5},
		},
		Quick:    budget{Shards: 14, Checks: 180, TimeoutS: 600},
		Thorough: budget{Shards: 14, Checks: 3500, TimeoutS: 5000},
	},
	{
		ID: "C05", Pkg: "c05", Level: "exploration",
		Technique:   "property-based testing (rapid) of generated concurrent workloads under the Go race detector, with scribbling of redeemed objects and seeded yields at redeem points; differential against sequentially computed outcomes",
		LevelText:   "2..64 goroutines released together, each issuing a generated sequence of AgainstSchema calls on shared reference-free schemas, Validate calls on a shared long-lived validator, whole-specification validations of its own document, value helpers incl. Pattern, plus a goroutine toggling SetContinueOnErrors; every call must return what it returned sequentially and the race detector must stay silent; half of the Pattern calls use an expression the process has never compiled (expected answer from Go's regexp), so that first-time compilations happen while other goroutines look patterns up. Most shards run the -race binary, the rest a plain binary with more cases.",
		LevelNote:   "Interleavings are sampled (the Go scheduler is not under the harness's control); amplifiers: happens-before race detection of executed access pairs, deterministic poisoning of redeemed objects, yields at redeem points, GOMAXPROCS in {1,2,4,16}. Failures needing a specific interleaving without any racing access or redeemed object remain out of reach; liveness is not addressed.",
		Assumptions: trusted,
		Builds: []buildVariant{
			{Name: "race", Tags: []string{"verif"}, Race: true, ShardShare: 0.7},
			{Name: "plain", Tags: []string{"verif"}, ShardShare: 0.3, ChecksScale: 5},
		},
		Quick:    budget{Shards: 14, Checks: 9, TimeoutS: 900},
		Thorough: budget{Shards: 14, Checks: 110, TimeoutS: 6000},
	},
	{
		ID: "C06", Pkg: "c06", Level: "exploration",
		Technique:   "property-based robustness testing (rapid; native coverage-guided go fuzzing of the same property in the thorough tier) with a no-panic / non-nil-result oracle and an allow-list of exactly the documented panic",
		LevelText:   "Degenerate-friendly schema grammar x derived, random and extreme instances x json.Number x every option subset x three registries x both entry points; each call must return normally with a non-nil result; the only panic accepted is the documented 'Invalid schema provided' one and only when an unresolvable $ref was planted. Exploration (plus coverage-guided fuzzing in thorough) suits an all-inputs crash-freedom claim.",
		LevelNote:   "Trusted: the harness's panic capture, the generator's notion of 'references resolve' (acyclic definitions it wrote itself), go test's timeout as the termination observer (timeout = inconclusive).",
		Assumptions: trusted,
		Builds:      plain,
		Quick:       budget{Shards: 14, Checks: 8000, TimeoutS: 400},
		Thorough:    budget{Shards: 14, Checks: 200000, TimeoutS: 3000},
		Fuzz:        &fuzzCfg{Target: "FuzzC06", Seconds: 300},
	},
	{
		ID: "C07", Pkg: "c07", Level: "exploration",
		Technique:   "property-based robustness testing (rapid; native go fuzzing in the thorough tier) of whole-specification validation over structurally edited documents, with a no-panic / non-nil oracle and process-survival monitoring",
		LevelText:   "Generated specifications (half with hostile names) and the repository's fixtures, altered by 1..4 structural edits (delete, retype, null, hostile rename, transplant, duplicate, $ref to nowhere / wrong section / with siblings, hostile parameter names); every document that loads is validated in both continue-on-errors modes and through validate.Spec; no panic, no fatal error, both results non-nil.",
		LevelNote:   "Trusted: the loader as the definition of 'loads'; panic capture; the driver's detection of a dying worker (the case in flight is saved before it runs). The recorded process-killing finding is avoided by construction (counted) and its witness is replayed in isolation.",
		Assumptions: trusted,
		Builds:      plain,
		Quick:       budget{Shards: 14, Checks: 30, TimeoutS: 600, ShrinkS: 30},
		Thorough:    budget{Shards: 14, Checks: 450, TimeoutS: 5000, ShrinkS: 60},
		Fuzz:        &fuzzCfg{Target: "FuzzC07", Seconds: 300},
	},
	{
		ID: "C08", Pkg: "c08", Level: "exploration",
		Technique:   "stateful property-based testing (rapid): generated call sequences on one long-lived validator, differential against freshly built validators and against the validator's own earlier answers",
		LevelText:   "One non-recycling schema / parameter / header validator per case, 5..40 Validate calls over a pool of values with repeats in generated order; each outcome (verdict, message sets) must equal that of a validator freshly built from a re-parsed definition and the earlier outcome for the same value.",
		LevelNote:   "Trusted: outcome normalisation (sets of messages), encoding/json re-decoding of values per call. No reference model is involved: the oracle is the library's own fresh validator, which is what the property states.",
		Assumptions: trusted,
		Builds:      plain,
		Quick:       budget{Shards: 14, Checks: 12000, TimeoutS: 400},
		Thorough:    budget{Shards: 14, Checks: 100000, TimeoutS: 3000},
		Fuzz:        &fuzzCfg{Target: "FuzzC08", Seconds: 180},
	},
	{
		ID: "C09", Pkg: "c09", Level: "exploration",
		Technique:   "property-based testing (rapid): specifications decorated with defaults/examples whose expected verdicts come from the draft-4 reference evaluator on each location's own schema; differential against the undecorated document",
		LevelText:   "Valid generated specifications decorated at every allowed location and depth (definitions, properties, items, tuple items, additionalProperties, allOf members, $ref targets, body and response schemas, simple parameters, headers and their items, response examples) with adversarial names; values inside or outside their schema in three profiles. A default outside => invalid; an example outside => a new warning and still valid; all inside => exactly the baseline report.",
		LevelNote:   "Trusted: internal/refmodel for the per-location verdict (a value is only used when the library's own direct validation agrees, otherwise the case is a C01/C16 matter and excluded), the undecorated document as baseline. The recorded visited-path heuristic is replicated exactly (path construction + suffix rule).",
		Assumptions: trusted,
		Builds:      plain,
		Quick:       budget{Shards: 14, Checks: 60, TimeoutS: 600, ShrinkS: 30},
		Thorough:    budget{Shards: 14, Checks: 900, TimeoutS: 5000, ShrinkS: 60},
	},
	{
		ID: "C10", Pkg: "c10", Level: "exploration",
		Technique:   "metamorphic property-based testing (rapid): repetitions, serialisation variants and the two continue-on-errors modes of one document must agree as stated",
		LevelText:   "Valid, singly and multiply broken generated specifications (several independent rule violations in different definitions / operations), structurally edited documents and fixtures; each loaded afresh and validated repeatedly, in both modes, from JSON, key-reversed JSON and YAML, then once more loaded and validated three times in a row without re-loading, and by a validator object that has validated another document before; equal message sets across repetitions and renderings, stop-early errors contained in continue-on-errors errors, validity <=> no error, returned warnings = attached warnings.",
		LevelNote:   "No reference model: the oracle is the relation between runs. Go randomises map iteration per range statement, so in-process repetitions exercise order dependence; separate shard processes add different hash seeds. Trusted: yaml.v3 / encoding/json renderings, message normalisation (only circular-ancestry messages are normalised).",
		Assumptions: trusted,
		Builds:      plain,
		Quick:       budget{Shards: 14, Checks: 16, TimeoutS: 900, ShrinkS: 30},
		Thorough:    budget{Shards: 14, Checks: 150, TimeoutS: 6000, ShrinkS: 60},
	},
	{
		ID: "C11", Pkg: "c11", Level: "fault_enumeration",
		Technique:   "property-based testing (rapid) with fault injection: for every generated workload the caller-supplied format checker is made to panic at its k-th invocation for EVERY k the workload reaches; differential against outcomes computed alone from reset pools",
		LevelText:   "Fault points are enumerated exhaustively within each generated workload (k = 1..N checker invocations, N <= 64, plus the fault-free history containing the documented unresolvable-$ref panic), workloads are sampled. After each recovered panic the rest of the workload and a probe sequence over all (schema, instance) pairs must return what they return alone from fresh pools; half of the shards use the validatedebug pools (double redeem panics), and a drawn scribble mode overwrites every redeemed object. About one case in 64 adds small specifications whose defaults and examples carry the fuse formats: there the fault points are sampled (first, middle and last checker invocation of the first document), and after each one every document is validated by the same SpecValidator object and by a fresh one.",
		LevelNote:   "Trusted: the fuse registry (internal/reg Hook), panic capture, the verif redeem hook and scribbler. Panics raised elsewhere than a format checker or the documented schema panic are outside the statement and are not injected.",
		Assumptions: trusted,
		Builds: []buildVariant{
			{Name: "plain", Tags: []string{"verif"}, ShardShare: 0.5},
			{Name: "debug", Tags: []string{"verif", "validatedebug"}, ShardShare: 0.5, ChecksScale: 0.4},
		},
		Quick:    budget{Shards: 14, Checks: 1200, TimeoutS: 900},
		Thorough: budget{Shards: 14, Checks: 9000, TimeoutS: 6000},
	},
	{
		ID: "C12", Pkg: "c12", Level: "exploration",
		Technique:   "property-based testing (rapid) with deep before/after snapshots of every input (instance, reference-free schema, parameter/header definition, loaded document)",
		LevelText:   "Generated inputs of the C01/C16/C03 domains are validated through every entry point; each input is compared after the call with an independently built pristine copy (reflect.DeepEqual and JSON rendering; doc.Raw() bytes and doc.Spec() JSON for documents).",
		LevelNote:   "Trusted: reflect.DeepEqual / encoding/json as the notion of 'unchanged'; schemas with $ref are only checked for the instance claim (in-place expansion is outside the property).",
		Assumptions: trusted,
		Builds:      plain,
		Quick:       budget{Shards: 14, Checks: 2500, TimeoutS: 600},
		Thorough:    budget{Shards: 14, Checks: 45000, TimeoutS: 6000},
		Fuzz:        &fuzzCfg{Target: "FuzzC12", Seconds: 120},
	},
	{
		ID: "C13", Pkg: "c13", Level: "exploration",
		Technique:   "property-based testing (rapid): exact big.Rat arithmetic as oracle, plus the metamorphic relation 'all Go carriers of one mathematical value get the same verdict'",
		LevelText:   "Generated (value, carrier kind, constraint, entry point) tuples with exactly representable values over all signed/unsigned integer kinds, float32, float64 and json.Number, through AgainstSchema, parameter and header validators and the exported helpers incl. the *NativeType facades; verdicts compared with exact rational arithmetic and across carriers.",
		LevelNote:   "Trusted: internal/simplemodel numeric helpers (big.Rat; a float64 constraint is read as its shortest decimal text), the domain reading stated in DESIGN.md (constraints the declared type/format cannot represent are excluded and counted).",
		Assumptions: trusted,
		Builds:      plain,
		Quick:       budget{Shards: 14, Checks: 40000, TimeoutS: 300},
		Thorough:    budget{Shards: 14, Checks: 400000, TimeoutS: 3000},
		Fuzz:        &fuzzCfg{Target: "FuzzC13", Seconds: 180},
	},
	{
		ID: "C15", Pkg: "c15", Level: "exploration",
		Technique:   "property-based testing (rapid) of generated sequential histories and barrier-released concurrent workloads against Go's regexp package, under the Go race detector, with a cache-content invariant read through the verif hook",
		LevelText:   "Per case a set of valid and invalid patterns (shared prefixes, flag/anchor variants), used through validate.Pattern, schema pattern and patternProperties, either in a generated sequential order or from 1..64 goroutines released together; every use must behave like regexp.Compile+MatchString of that very pattern, invalid patterns must be reported as invalid, and after the case the cache must map every key to its own expression, contain every valid pattern used and no invalid one. Half of the shards run under -race.",
		LevelNote:   "Schedules are sampled, not enumerated (Go scheduler is not controlled); amplifiers: race detector (happens-before), barriers so that first-time compilations collide, cache invariant. 'Every valid pattern used is cached' is an internal strengthening used to expose lost updates. Trusted: regexp, the race detector, the hook snapshot.",
		Assumptions: trusted,
		Builds: []buildVariant{
			{Name: "race", Tags: []string{"verif"}, Race: true, ShardShare: 0.5, ChecksScale: 0.1},
			{Name: "plain", Tags: []string{"verif"}, ShardShare: 0.5},
		},
		Quick:    budget{Shards: 14, Checks: 4000, TimeoutS: 400},
		Thorough: budget{Shards: 14, Checks: 80000, TimeoutS: 3000},
	},
	{
		ID: "C16", Pkg: "c16", Level: "exploration",
		Technique:   "property-based differential testing (rapid) of parameter/header/items validators against an independent simple-schema evaluator over typed Go values",
		LevelText:   "Generated simple-schema definitions (type, format, enum, numeric, string, array constraints, items nested to depth 4) x typed Go values of matching and non-matching kinds; valid <=> the independent evaluator says the value has the declared type and meets every constraint at every items level; nil is not validated. Numbers stay within 2^53 except 64-bit integers under type integer with enum / uniqueItems only.",
		LevelNote:   "Trusted: internal/simplemodel (independent of the library; unit-tested), strfmt.Default as the meaning of date/uuid/email. The open header finding is replicated exactly; array-valued enum members against differently typed Go slices and mixed-carrier uniqueItems are outside the domain and counted.",
		Assumptions: trusted,
		Builds:      plain,
		Quick:       budget{Shards: 14, Checks: 40000, TimeoutS: 300},
		Thorough:    budget{Shards: 14, Checks: 400000, TimeoutS: 3000},
		Fuzz:        &fuzzCfg{Target: "FuzzC16", Seconds: 180},
	},
	{
		ID: "C14", Pkg: "c14", Level: "exploration",
		Technique:   "property-based testing (rapid) of each exported helper against independently re-stated textbook definitions, plus purity (call twice, arguments compared with a pristine copy)",
		LevelText:   "One generated helper invocation per case over typed argument descriptors (all numeric kinds, strings incl. invalid UTF-8, nested containers, typed/untyped nils, every operation context, nil/default/custom registries); expected verdict from definitions written on the descriptors with exact rationals and Unicode simple case folding; verdict, purity and absence of panics checked. Exploration is the right level for an all-inputs claim about 13 small pure functions.",
		LevelNote:   "Trusted: the definitions in checks/c14 (three-valued equality: comparisons the statement does not settle are executed but not judged and are counted as excluded), math/big, regexp, unicode tables, strfmt.Default as 'the registry'.",
		Assumptions: trusted,
		Builds:      plain,
		Quick:       budget{Shards: 14, Checks: 30000, TimeoutS: 300},
		Thorough:    budget{Shards: 14, Checks: 1000000, TimeoutS: 3000},
		Fuzz:        &fuzzCfg{Target: "FuzzC14", Seconds: 180},
	},
	{
		ID: "C17", Pkg: "c17", Level: "exploration",
		Technique:   "property-based testing (rapid): structural invariants of results and composite errors, plus error locations checked against the failing-location set of the draft-4 reference evaluator",
		LevelText:   "Generated (schema, instance, root path) triples; validity <=> absence of errors; the one-shot composite error (code 422) must list exactly the result's messages without duplicates; every field-level error name must extend the root path and, for schemas nesting through properties/patternProperties/additionalProperties/tuple items, must be a location at which some keyword really fails according to the reference evaluator.",
		LevelNote:   "Trusted: internal/refmodel's failing-location bookkeeping (same evaluator as C01), the path rendering rule (root + '.' + member, leading '.' dropped for an empty root).",
		Assumptions: trusted,
		Builds:      plain,
		Quick:       budget{Shards: 14, Checks: 8000, TimeoutS: 400},
		Thorough:    budget{Shards: 14, Checks: 120000, TimeoutS: 3000},
		Fuzz:        &fuzzCfg{Target: "FuzzC17", Seconds: 240},
	},
	{
		ID: "C18", Pkg: "c18", Level: "exploration",
		Technique:   "property-based testing (rapid) against an independent 'applicable schemas / defaults' model that yields the set of acceptable post-states",
		LevelText:   "Schemas and valid instances are built together (defaults at depth, under allOf/anyOf/oneOf, items, patternProperties, additionalProperties, $ref); after Validate + post.ApplyDefaults the data must equal one of the post-states the model accepts (one per consistent choice of anyOf alternative): present members untouched, every absent member with an applicable default filled with one of them, nothing else added.",
		LevelNote:   "Trusted: internal/postmodel (library-free), internal/refmodel for validity; alternatives on which model and library disagree are excluded (C01's business). The open $ref-default finding is replicated exactly.",
		Assumptions: trusted,
		Builds:      plain,
		Quick:       budget{Shards: 14, Checks: 3000, TimeoutS: 400},
		Thorough:    budget{Shards: 14, Checks: 80000, TimeoutS: 3000},
		Fuzz:        &fuzzCfg{Target: "FuzzC18", Seconds: 180},
	},
	{
		ID: "C19", Pkg: "c19", Level: "exploration",
		Technique:   "property-based testing (rapid) against an independent 'described-by' model that yields the set of acceptable pruned states, plus the metamorphic idempotence check",
		LevelText:   "Valid instances with described and undescribed members at every depth; after Validate + post.Prune a member remains exactly when an applicable schema describes it (acceptable states enumerated over anyOf choices), survivors are unchanged up to recursive pruning, and without anyOf/oneOf a second validate+prune removes nothing.",
		LevelNote:   "Trusted: internal/postmodel, internal/refmodel; reading: additionalProperties true/absent permits but does not describe, a schema-valued one describes every member.",
		Assumptions: trusted,
		Builds:      plain,
		Quick:       budget{Shards: 14, Checks: 3000, TimeoutS: 400},
		Thorough:    budget{Shards: 14, Checks: 80000, TimeoutS: 3000},
		Fuzz:        &fuzzCfg{Target: "FuzzC19", Seconds: 180},
	},
	{
		ID: "C20", Pkg: "c20", Level: "exploration",
		Technique:   "stateful property-based testing (rapid) against an ordered-set + counter reference model",
		LevelText:   "Generated call histories over validate.Result compared step by step with an independent ordered-set + counter model; every query and AsError checked on every result (incl. nil) after every step. Exploration: the property held on all generated histories, which is the right level for an all-histories claim with a cheap exact oracle.",
		LevelNote:   "Trusted: the 60-line model in checks/c20, rapid, Go. Results are built through the public API only (none owned by the pools); typed-nil errors are not generated.",
		Assumptions: trusted,
		Builds:      plain,
		Quick:       budget{Shards: 14, Checks: 20000, TimeoutS: 240},
		Thorough:    budget{Shards: 14, Checks: 60000, TimeoutS: 1500},
		Fuzz:        &fuzzCfg{Target: "FuzzC20", Seconds: 120},
	},
}
