// Package specdoc provides the base documents shared by the specification-level checks
// (C02, C07, C10, C12): generated specifications and the repository's own fixtures.
package specdoc

import (
	"strings"

	"pgregory.net/rapid"

	"verif/internal/gen"
	"verif/internal/refmodel"
)

// Base draws a base document and names its source.
func Base(t *rapid.T, hostile bool) (map[string]any, string) {
	if gen.FixtureCount() > 0 && rapid.IntRange(0, 2).Draw(t, "usefixture") == 0 {
		if doc, name, ok := gen.FixtureDoc(t); ok {
			return doc, "fixture:" + name
		}
	}
	h := hostile && rapid.Bool().Draw(t, "hostilenames")
	doc, _ := gen.Spec(t, gen.SpecOpts{HostileNames: h, Rich: rapid.Bool().Draw(t, "rich")})
	if h {
		return doc, "generated-hostile"
	}
	return doc, "generated"
}

// SourceClass reduces a source name to its class.
func SourceClass(src string) string {
	if strings.HasPrefix(src, "fixture:") {
		return "fixture"
	}
	return src
}

// KnownCrasher tells whether a recorded process-killing finding would fire on this
// document when validated with continue-on-errors; it returns the reason, or "".
//
// KF-circular-composition-stack-overflow: schemas with a reference cycle through allOf/anyOf/oneOf/not make the
// construction of schema validators recurse without end (eager allOf children) as soon
// as a default or example is validated against a schema that reaches the cycle; in
// stop-early mode the circular-ancestry error ends validation before that.
func KnownCrasher(docText string) string {
	v, err := refmodel.Decode([]byte(docText))
	if err != nil {
		return ""
	}
	doc, _ := v.(map[string]any)
	if doc == nil {
		return ""
	}
	if !strings.Contains(docText, `"default"`) && !strings.Contains(docText, `"example`) {
		return ""
	}
	if allOfCycle(doc) {
		return "reference cycle through allOf/anyOf/oneOf/not together with a default/example (KF-circular-composition-stack-overflow)"
	}
	return ""
}

// allOfCycle reports a cycle in the graph schema -> (allOf member | $ref target), over the whole document.
func allOfCycle(doc map[string]any) bool {
	resolve := func(ref string) map[string]any {
		if !strings.HasPrefix(ref, "#/") {
			return nil
		}
		var cur any = doc
		for _, tok := range strings.Split(ref[2:], "/") {
			tok = strings.ReplaceAll(strings.ReplaceAll(tok, "~1", "/"), "~0", "~")
			tok = strings.ReplaceAll(tok, "%20", " ")
			m, ok := cur.(map[string]any)
			if !ok {
				return nil
			}
			cur = m[tok]
		}
		m, _ := cur.(map[string]any)
		return m
	}
	type node = map[string]any
	state := map[*byte]int{} // keyed by identity through a per-node marker
	marker := map[uintptrKey]*byte{}
	id := func(n node) *byte {
		k := keyOf(n)
		if b, ok := marker[k]; ok {
			return b
		}
		b := new(byte)
		marker[k] = b
		return b
	}
	var visit func(n node, depth int) bool
	visit = func(n node, depth int) bool {
		if n == nil || depth > 200 {
			return depth > 200
		}
		i := id(n)
		switch state[i] {
		case 1:
			return true
		case 2:
			return false
		}
		state[i] = 1
		defer func() { state[i] = 2 }()
		if ref, ok := n["$ref"].(string); ok {
			if visit(resolve(ref), depth+1) {
				return true
			}
		}
		for _, kw := range []string{"allOf", "anyOf", "oneOf"} {
			if all, ok := n[kw].([]any); ok {
				for _, m := range all {
					if mm, ok := m.(map[string]any); ok && visit(mm, depth+1) {
						return true
					}
				}
			}
		}
		if mm, ok := n["not"].(map[string]any); ok && visit(mm, depth+1) {
			return true
		}
		return false
	}
	var walk func(v any) bool
	walk = func(v any) bool {
		switch x := v.(type) {
		case map[string]any:
			for _, kw := range []string{"allOf", "anyOf", "oneOf", "not"} {
				if _, has := x[kw]; has {
					if visit(x, 0) {
						return true
					}
					break
				}
			}
			for _, w := range x {
				if walk(w) {
					return true
				}
			}
		case []any:
			for _, w := range x {
				if walk(w) {
					return true
				}
			}
		}
		return false
	}
	return walk(doc)
}
