package specdoc

import "reflect"

type uintptrKey uintptr

func keyOf(m map[string]any) uintptrKey { return uintptrKey(reflect.ValueOf(m).Pointer()) }
