package simplemodel

import (
	"math/big"
	"testing"
)

func rat(t *testing.T, s string) *big.Rat {
	t.Helper()
	r, ok := ParseRat(s)
	if !ok {
		t.Fatalf("ParseRat(%q)", s)
	}
	return r
}

func TestNumbers(t *testing.T) {
	for _, bad := range []string{"", "1/2", "0x10", ".5", "1.", "+1", "1e1000", "NaN"} {
		if _, ok := ParseRat(bad); ok {
			t.Errorf("ParseRat accepts %q", bad)
		}
	}
	if s, _ := RatText(big.NewRat(-5, 4)); s != "-1.25" {
		t.Errorf("RatText(-5/4) = %q", s)
	}
	if _, ok := RatText(big.NewRat(1, 3)); ok {
		t.Errorf("RatText(1/3) finite")
	}
	if r, _ := Float64Rat(0.1); r.Cmp(big.NewRat(1, 10)) != 0 {
		t.Errorf("Float64Rat(0.1) = %v", r)
	}
	if _, ok := FloatFor("9007199254740993"); ok {
		t.Errorf("2^53+1 is not a float64")
	}
	for _, c := range []struct {
		kind, text string
		ok         bool
	}{
		{"int8", "127", true}, {"int8", "128", false}, {"uint8", "-1", false}, {"uint16", "65535", true}, {"int", "2.5", false},
		{"float32", "0.5", true}, {"float32", "0.1", false}, {"float32", "16777217", false}, {"float64", "0.1", true},
		{"float64", "9007199254740991", true}, {JSONNumber, "2.50", true}, {"int64", "-9007199254740991", true},
	} {
		v, ok := Carry(c.kind, c.text)
		if ok != c.ok {
			t.Errorf("Carry(%s,%s) ok=%v", c.kind, c.text, ok)
			continue
		}
		if ok {
			back, _ := ValueRat(v)
			if back.Cmp(rat(t, c.text)) != 0 || KindOf(v) != c.kind {
				t.Errorf("Carry(%s,%s) = %v (%s) reads back as %v", c.kind, c.text, v, KindOf(v), back)
			}
		}
	}
}

func TestStrict(t *testing.T) {
	for _, c := range []struct {
		kw, v, c string
		want     bool
	}{
		{Minimum, "2", "2.5", false}, {Minimum, "3", "2.5", true}, {ExclusiveMaximum, "3", "3.5", true}, {Maximum, "-2", "-2.5", false},
		{ExclusiveMinimum, "0", "0", false}, {MultipleOf, "1000000001", "2", false}, {MultipleOf, "0.03", "0.006", true},
		{MultipleOf, "2", "0.5", true}, {MultipleOf, "4", "1.5", false}, {MultipleOf, "0", "7", true}, {MultipleOf, "-9", "3", true},
	} {
		if got := Strict(c.kw, rat(t, c.v), rat(t, c.c)); got != c.want {
			t.Errorf("%s %s=%s: %v", c.v, c.kw, c.c, got)
		}
	}
	// deviation modes only act inside their regions and report it
	touched := Touched{}
	if v, _ := NumericVerdict(Minimum, int64(2), 2.5, Dev{DevIntTrunc: true}, touched); !v || !touched[DevIntTrunc] {
		t.Errorf("truncation replica: %v %v", v, touched)
	}
	touched = Touched{}
	if v, _ := NumericVerdict(Minimum, int64(2), 2, Dev{DevIntTrunc: true}, touched); !v || len(touched) != 0 {
		t.Errorf("integer bound must not touch: %v %v", v, touched)
	}
	if v, _ := NumericVerdict(Minimum, int64(2), 2.5, nil, Touched{}); v {
		t.Errorf("strict 2 >= 2.5")
	}
}

func TestEval(t *testing.T) {
	two := int64(2)
	str := func(s string) Value { return Value{Kind: KString, Str: s} }
	num := func(k, n string) Value { return Value{Kind: k, Num: n} }
	arr := func(elem string, items ...Value) Value { return Value{Kind: KSlice, Elem: elem, Items: items} }
	reg := func(f, s string) (bool, bool) { return f == "date", s == "2020-01-31" }
	for i, c := range []struct {
		d    Def
		v    Value
		o    Opts
		want bool
	}{
		{Def{Type: "integer"}, num("float64", "3"), Opts{}, true},
		{Def{Type: "integer"}, num("float64", "3.5"), Opts{}, false},
		{Def{Type: "number"}, num("uint8", "3"), Opts{}, true},
		{Def{Type: "string"}, num("int", "3"), Opts{}, false},
		{Def{Type: "integer", Format: "int32"}, num("int64", "2147483648"), Opts{}, false},
		{Def{Type: "string", MinLength: &two}, str("é"), Opts{}, false},
		{Def{Type: "string", MinLength: &two}, str("éé"), Opts{}, true},
		{Def{Type: "string", Pattern: "b"}, str("abc"), Opts{}, true},
		{Def{Type: "string", Format: "date"}, str("x"), Opts{FormatOK: reg}, false},
		{Def{Type: "string"}, str(""), Opts{RequiredNonEmpty: true}, false},
		{Def{Type: "string"}, str(""), Opts{Header: true}, true},
		{Def{Type: "array", Items: &Def{Type: "string", Format: "date"}}, arr("string", str("x")), Opts{FormatOK: reg}, false},
		{Def{Type: "array", Items: &Def{Type: "string", Format: "date"}}, arr("string", str("x")), Opts{FormatOK: reg, Dev: Dev{DevItemFormat: true}}, true},
		{Def{Type: "array", UniqueItems: true}, arr("interface", num("int", "1"), num("int", "1")), Opts{}, false},
		{Def{Type: "array", MaxItems: &two}, arr("int8", num("int8", "1"), num("int8", "2")), Opts{}, true},
		{Def{Type: "number", Enum: []Value{num("float64", "200")}}, num("uint8", "200"), Opts{}, true},
		{Def{Type: "integer", Enum: []Value{str("A")}}, num("int", "65"), Opts{}, false},
		{Def{Type: "array", Enum: []Value{arr("interface", str("a"))}}, arr("string", str("a")), Opts{}, true},
		{Def{Type: "array", Items: &Def{Type: "array", Items: &Def{Type: "integer", Maximum: "3"}}}, arr("[]int", arr("int", num("int", "3")), arr("int", num("int", "4"))), Opts{}, false},
	} {
		got, tr := Eval(&c.d, c.v, c.o)
		if got != c.want {
			t.Errorf("case %d: got %v (%+v)", i, got, tr)
		}
		if r := c.d.InDomain(); r != "" {
			t.Errorf("case %d: definition outside the domain: %s", i, r)
		}
		if r := ValueInDomain(c.v); r != "" {
			t.Errorf("case %d: value outside the domain: %s", i, r)
		}
	}
	if r := ValueInDomain(arr("uint8")); r == "" {
		t.Errorf("[]uint8 must be outside the domain")
	}
	bad := Def{Type: "integer", Minimum: "2.5"}
	if bad.InDomain() == "" {
		t.Errorf("fractional bound on type integer must be outside the domain")
	}
}
