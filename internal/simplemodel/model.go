package simplemodel

import (
	"fmt"
	"math"
	"math/big"
	"reflect"
	"regexp"
	"strings"
	"unicode/utf8"
)

// Def is a Swagger 2.0 simple-schema definition (what a non-body parameter, a
// header or an items object declares). Numeric bounds are decimal text so that
// a definition survives JSON exactly; "" means "not declared".
type Def struct {
	Type             string  `json:"type"`
	Format           string  `json:"format,omitempty"`
	Enum             []Value `json:"enum,omitempty"`
	Minimum          string  `json:"minimum,omitempty"`
	ExclusiveMinimum bool    `json:"exclusiveMinimum,omitempty"`
	Maximum          string  `json:"maximum,omitempty"`
	ExclusiveMaximum bool    `json:"exclusiveMaximum,omitempty"`
	MultipleOf       string  `json:"multipleOf,omitempty"`
	MinLength        *int64  `json:"minLength,omitempty"`
	MaxLength        *int64  `json:"maxLength,omitempty"`
	Pattern          string  `json:"pattern,omitempty"`
	MinItems         *int64  `json:"minItems,omitempty"`
	MaxItems         *int64  `json:"maxItems,omitempty"`
	UniqueItems      bool    `json:"uniqueItems,omitempty"`
	Items            *Def    `json:"items,omitempty"`
}

// Value is a typed Go value in a JSON-serialisable form.
//
//	numeric kinds: Kind is the Go kind name, Num the decimal text
//	"string": Str; "bool": Bool
//	"slice": Elem is the Go element type ("interface", a kind name, or "[]"+element type), Items the elements;
//	         Nil makes it a typed nil slice
type Value struct {
	Kind  string  `json:"kind"`
	Num   string  `json:"num,omitempty"`
	Str   string  `json:"str,omitempty"`
	Bool  bool    `json:"bool,omitempty"`
	Elem  string  `json:"elem,omitempty"`
	Nil   bool    `json:"nil,omitempty"`
	Items []Value `json:"items,omitempty"`
}

const elemInterface = "interface"

var scalarTypes = map[string]reflect.Type{
	"int": reflect.TypeOf(int(0)), "int8": reflect.TypeOf(int8(0)), "int16": reflect.TypeOf(int16(0)), "int32": reflect.TypeOf(int32(0)), "int64": reflect.TypeOf(int64(0)),
	"uint": reflect.TypeOf(uint(0)), "uint8": reflect.TypeOf(uint8(0)), "uint16": reflect.TypeOf(uint16(0)), "uint32": reflect.TypeOf(uint32(0)), "uint64": reflect.TypeOf(uint64(0)),
	"float32": reflect.TypeOf(float32(0)), "float64": reflect.TypeOf(float64(0)),
	KString: reflect.TypeOf(""), KBool: reflect.TypeOf(false),
	elemInterface: reflect.TypeOf((*interface{})(nil)).Elem(),
}

// ElemType resolves an element type description.
func ElemType(desc string) (reflect.Type, error) {
	if strings.HasPrefix(desc, "[]") {
		inner, err := ElemType(desc[2:])
		if err != nil {
			return nil, err
		}
		return reflect.SliceOf(inner), nil
	}
	if t, ok := scalarTypes[desc]; ok {
		return t, nil
	}
	return nil, fmt.Errorf("unknown element type %q", desc)
}

// GoType describes the Go type of the value the way Elem does.
func (v Value) GoType() string {
	if v.Kind == KSlice {
		return "[]" + v.Elem
	}
	return v.Kind
}

// Go builds the typed Go value.
func (v Value) Go() (interface{}, error) {
	switch {
	case IsNumericKind(v.Kind):
		g, ok := Carry(v.Kind, v.Num)
		if !ok {
			return nil, fmt.Errorf("%s cannot carry %q exactly", v.Kind, v.Num)
		}
		return g, nil
	case v.Kind == KString:
		return v.Str, nil
	case v.Kind == KBool:
		return v.Bool, nil
	case v.Kind == KNil:
		return nil, nil
	case v.Kind == KSlice:
		et, err := ElemType(v.Elem)
		if err != nil {
			return nil, err
		}
		st := reflect.SliceOf(et)
		if v.Nil {
			if len(v.Items) > 0 {
				return nil, fmt.Errorf("nil slice with items")
			}
			return reflect.Zero(st).Interface(), nil
		}
		s := reflect.MakeSlice(st, len(v.Items), len(v.Items))
		for i, it := range v.Items {
			g, err := it.Go()
			if err != nil {
				return nil, err
			}
			if it.Kind == KNil {
				if et.Kind() != reflect.Interface {
					return nil, fmt.Errorf("nil element in a slice of %s", et)
				}
				continue // the element stays the nil interface
			}
			gv := reflect.ValueOf(g)
			if !gv.Type().AssignableTo(et) {
				return nil, fmt.Errorf("element %d of type %s is not assignable to %s", i, gv.Type(), et)
			}
			s.Index(i).Set(gv)
		}
		return s.Interface(), nil
	}
	return nil, fmt.Errorf("unknown value kind %q", v.Kind)
}

// Rat is the number carried by a numeric value.
func (v Value) Rat() (*big.Rat, bool) {
	if !IsNumericKind(v.Kind) {
		return nil, false
	}
	g, ok := Carry(v.Kind, v.Num)
	if !ok {
		return nil, false
	}
	return ValueRat(g)
}

// ValueEqual is deep equality by value: numbers by the number carried
// (whatever the kind), strings and booleans by content, arrays element-wise; no
// equality across number / string / boolean / array.
func ValueEqual(a, b Value) bool {
	an, bn := IsNumericKind(a.Kind), IsNumericKind(b.Kind)
	switch {
	case an && bn:
		ar, ok1 := a.Rat()
		br, ok2 := b.Rat()
		return ok1 && ok2 && ar.Cmp(br) == 0
	case an || bn:
		return false
	case a.Kind != b.Kind:
		return false
	case a.Kind == KString:
		return a.Str == b.Str
	case a.Kind == KBool:
		return a.Bool == b.Bool
	case a.Kind == KNil:
		return true
	case a.Kind == KSlice:
		if len(a.Items) != len(b.Items) {
			return false
		}
		for i := range a.Items {
			if !ValueEqual(a.Items[i], b.Items[i]) {
				return false
			}
		}
		return true
	}
	return false
}

// sameGoTypes tells whether two values have identical Go representations at
// every level: same types, and nil slices only facing nil slices.
func sameGoTypes(a, b Value) bool {
	if a.GoType() != b.GoType() || a.Nil != b.Nil {
		return false
	}
	if a.Kind == KSlice {
		if len(a.Items) != len(b.Items) {
			return false
		}
		for i := range a.Items {
			if !sameGoTypes(a.Items[i], b.Items[i]) {
				return false
			}
		}
	}
	return true
}

// Formats of the domain, by declared type.
var (
	StringFormats  = []string{"date", "uuid", "email"}
	IntegerFormats = []string{"int32", "int64"}
	NumberFormats  = []string{"float", "double"}
)

// MaxDepth is the deepest items nesting of the domain.
const MaxDepth = 4

// InDomain returns "" when the definition belongs to the domain of the
// simple-schema property, else the reason why not.
func (d *Def) InDomain() string { return d.inDomain(0) }

func (d *Def) inDomain(depth int) string {
	switch d.Type {
	case "string":
		if d.Format != "" && !in(StringFormats, d.Format) {
			return "format-not-of-declared-type"
		}
	case "integer":
		if d.Format != "" && !in(IntegerFormats, d.Format) {
			return "format-not-of-declared-type"
		}
	case "number":
		if d.Format != "" && !in(NumberFormats, d.Format) {
			return "format-not-of-declared-type"
		}
	case "boolean", "array":
		if d.Format != "" {
			return "format-not-of-declared-type"
		}
	default:
		return "type-not-a-simple-type"
	}
	for _, b := range []struct{ kw, text string }{{Minimum, d.Minimum}, {Maximum, d.Maximum}, {MultipleOf, d.MultipleOf}} {
		if b.text == "" {
			continue
		}
		r, ok := ParseRat(b.text)
		if !ok {
			return "malformed-bound"
		}
		if _, ok := FloatFor(b.text); !ok {
			return "bound-not-a-float64"
		}
		if new(big.Rat).Abs(r).Cmp(new(big.Rat).SetInt64(Limit)) > 0 {
			return "beyond-safe-integer-range"
		}
		if b.kw == MultipleOf && r.Sign() <= 0 {
			return "multipleOf-not-positive"
		}
		if d.Type == "integer" {
			if !r.IsInt() {
				return "bound-not-representable-in-declared-type"
			}
			if d.Format == "int32" && (r.Cmp(big.NewRat(math.MinInt32, 1)) < 0 || r.Cmp(big.NewRat(math.MaxInt32, 1)) > 0) {
				return "bound-not-representable-in-declared-type"
			}
		}
	}
	if (d.ExclusiveMinimum && d.Minimum == "") || (d.ExclusiveMaximum && d.Maximum == "") {
		return "exclusive-flag-without-bound"
	}
	for _, n := range []*int64{d.MinLength, d.MaxLength, d.MinItems, d.MaxItems} {
		if n != nil && *n < 0 {
			return "negative-size"
		}
	}
	if d.Pattern != "" {
		if _, err := regexp.Compile(d.Pattern); err != nil {
			return "pattern-does-not-compile"
		}
	}
	for _, e := range d.Enum {
		if _, err := e.Go(); err != nil {
			return "malformed-enum"
		}
	}
	if d.Items != nil {
		if d.Type != "array" {
			return "items-on-non-array"
		}
		if depth+1 > MaxDepth {
			return "items-deeper-than-4"
		}
		return d.Items.inDomain(depth + 1)
	}
	return ""
}

// ValueInDomain returns "" when the value belongs to the domain.
func ValueInDomain(v Value) string {
	switch {
	case IsNumericKind(v.Kind):
		r, ok := v.Rat()
		if !ok {
			return "number-not-representable-in-kind"
		}
		if new(big.Rat).Abs(r).Cmp(new(big.Rat).SetInt64(Limit)) > 0 {
			return "beyond-safe-integer-range"
		}
	case v.Kind == KString, v.Kind == KBool, v.Kind == KNil:
	case v.Kind == KSlice:
		if v.Elem == "uint8" {
			return "[]uint8-is-[]byte" // Go's byte string: the library maps it to string/byte by design (type.go:63)
		}
		for _, it := range v.Items {
			if r := ValueInDomain(it); r != "" {
				return r
			}
		}
	default:
		return "unknown-kind"
	}
	if _, err := v.Go(); err != nil {
		return "malformed-value"
	}
	return ""
}

// Opts parameterises an evaluation.
type Opts struct {
	// RequiredNonEmpty: the definition is a required parameter that does not
	// allow an empty value: a root string value "" is invalid.
	RequiredNonEmpty bool
	// Header: the definition is a response header (nothing can declare it required).
	Header bool
	// Dev are the deviation modes switched on (nil = strict).
	Dev Dev
	// FormatOK is the format registry: known tells whether it knows the name.
	FormatOK func(format, s string) (known, ok bool)
}

// Trace reports how an evaluation went.
type Trace struct {
	Touched    Touched
	Excluded   []string // reasons why the strict verdict is not defined for this pair
	Reason     string   // the first failing group ("" when valid)
	LaterGroup bool     // a declared constraint group was reached after an earlier declared group had passed
	Mismatch   bool     // some value was not of the declared type
}

// Eval decides whether the value is valid for the definition.
func Eval(d *Def, v Value, o Opts) (bool, *Trace) {
	tr := &Trace{Touched: Touched{}}
	ok := evalLevel(d, v, o, tr, 0)
	return ok, tr
}

func typeMatches(typ string, v Value) bool {
	switch typ {
	case "string":
		return v.Kind == KString
	case "boolean":
		return v.Kind == KBool
	case "array":
		return v.Kind == KSlice
	case "number":
		return IsNumericKind(v.Kind)
	case "integer":
		if IsIntegerKind(v.Kind) {
			return true
		}
		if IsFloatKind(v.Kind) {
			r, ok := v.Rat()
			return ok && r.IsInt()
		}
	}
	return false
}

func fail(tr *Trace, level int, group string) bool {
	if tr.Reason == "" {
		if level > 0 {
			group = fmt.Sprintf("items[%d]:%s", level, group)
		}
		tr.Reason = group
	}
	return false
}

func evalLevel(d *Def, v Value, o Opts, tr *Trace, level int) bool {
	passed := 0 // declared groups (other than the type) that applied and passed
	reach := func() {
		if passed > 0 {
			tr.LaterGroup = true
		}
	}

	// 1. type
	if !typeMatches(d.Type, v) {
		tr.Mismatch = true
		if o.Dev[DevFormatSkipsType] && d.Type != "number" && d.Type != "integer" && d.Format != "" && (v.Kind == KSlice || v.Kind == KString) {
			tr.Touched[DevFormatSkipsType] = true
		} else {
			return fail(tr, level, "type")
		}
	}

	// 2. string constraints
	if v.Kind == KString {
		if level == 0 && v.Str == "" {
			if o.RequiredNonEmpty {
				return fail(tr, level, "required")
			}
			if o.Header && o.Dev[DevHeaderEmptyRequired] {
				tr.Touched[DevHeaderEmptyRequired] = true
				return fail(tr, level, "required")
			}
		}
		n := int64(0)
		for range v.Str {
			n++
		}
		if !utf8.ValidString(v.Str) {
			tr.Excluded = append(tr.Excluded, "string-not-utf8")
		}
		if d.MaxLength != nil || d.MinLength != nil {
			if (d.MaxLength != nil && n > *d.MaxLength) || (d.MinLength != nil && n < *d.MinLength) {
				return fail(tr, level, "length")
			}
			passed++
		}
		if d.Pattern != "" {
			reach()
			re, err := regexp.Compile(d.Pattern)
			if err != nil || !re.MatchString(v.Str) {
				return fail(tr, level, "pattern")
			}
			passed++
		}
	}

	// 3. format of strings
	if v.Kind == KString && d.Format != "" && o.FormatOK != nil {
		if known, ok := o.FormatOK(d.Format, v.Str); known {
			reach()
			switch {
			case ok:
				passed++
			case level > 0 && o.Dev[DevItemFormat]:
				tr.Touched[DevItemFormat] = true
			default:
				return fail(tr, level, "format")
			}
		}
	}

	// 4. numbers: range of the declared format, then the keywords
	if IsNumericKind(v.Kind) {
		r, _ := v.Rat()
		declared := false
		switch {
		case d.Type == "integer" && d.Format == "int32":
			declared = true
			if r.Cmp(big.NewRat(math.MinInt32, 1)) < 0 || r.Cmp(big.NewRat(math.MaxInt32, 1)) > 0 {
				return fail(tr, level, "format-range")
			}
		case d.Type == "number" && d.Format == "float":
			declared = true
			if new(big.Rat).Abs(r).Cmp(new(big.Rat).SetFloat64(math.MaxFloat32)) > 0 {
				return fail(tr, level, "format-range")
			}
		}
		goVal, err := v.Go()
		if err != nil {
			tr.Excluded = append(tr.Excluded, "malformed-value")
			return false
		}
		for _, b := range []struct {
			kw, text string
		}{
			{MultipleOf, d.MultipleOf},
			{pick(d.ExclusiveMaximum, ExclusiveMaximum, Maximum), d.Maximum},
			{pick(d.ExclusiveMinimum, ExclusiveMinimum, Minimum), d.Minimum},
		} {
			if b.text == "" {
				continue
			}
			declared = true
			c, ok := FloatFor(b.text)
			if !ok {
				tr.Excluded = append(tr.Excluded, "bound-not-a-float64")
				return false
			}
			verdict, ok := NumericVerdict(b.kw, goVal, c, o.Dev, tr.Touched)
			if !ok {
				tr.Excluded = append(tr.Excluded, "number-not-finite")
				return false
			}
			if !verdict {
				return fail(tr, level, b.kw)
			}
		}
		if declared {
			passed++
		}
	}

	// 5. arrays
	if v.Kind == KSlice {
		n := int64(len(v.Items))
		if d.MinItems != nil || d.MaxItems != nil {
			if (d.MinItems != nil && n < *d.MinItems) || (d.MaxItems != nil && n > *d.MaxItems) {
				return fail(tr, level, "size")
			}
			passed++
		}
		if d.UniqueItems {
			reach()
			dupByValue, dupByGo := false, false
			for i := range v.Items {
				for j := 0; j < i; j++ {
					if ValueEqual(v.Items[i], v.Items[j]) {
						dupByValue = true
						if sameGoTypes(v.Items[i], v.Items[j]) || (IsNumericKind(v.Items[i].Kind) && IsNumericKind(v.Items[j].Kind)) {
							dupByGo = true
						}
					}
				}
			}
			if dupByValue != dupByGo {
				// equal values in different Go representations inside one []interface{} other than two plain
				// numbers (slices of different element kinds, a nil slice beside an empty one): the
				// statement's equality across kinds is read as applying to numbers themselves
				tr.Excluded = append(tr.Excluded, "uniqueItems-mixed-carriers")
			}
			if dupByValue {
				return fail(tr, level, "uniqueItems")
			}
			passed++
		}
		if d.Items != nil {
			if len(v.Items) > 0 {
				reach()
			}
			for _, it := range v.Items {
				if !evalLevel(d.Items, it, o, tr, level+1) {
					return false
				}
			}
			if len(v.Items) > 0 {
				passed++
			}
		}
	}

	// 6. enum
	if len(d.Enum) > 0 {
		reach()
		if !enumMember(d.Enum, v, o, tr) {
			return fail(tr, level, "enum")
		}
	}
	return true
}

func pick(b bool, yes, no string) string {
	if b {
		return yes
	}
	return no
}

func enumMember(enum []Value, v Value, o Opts, tr *Trace) bool {
	strict := false
	for _, e := range enum {
		if ValueEqual(v, e) {
			strict = true
			break
		}
	}
	if len(o.Dev) == 0 {
		return strict
	}
	goVal, err := v.Go()
	if err != nil {
		return strict
	}
	rv := reflect.ValueOf(goVal)
	if strict {
		// region of DevEnumTypedSlice: an array value that is a member by value, but none of the
		// entries it equals has its Go types (the library compares with reflect.DeepEqual after conversion)
		if o.Dev[DevEnumTypedSlice] && v.Kind == KSlice {
			for _, e := range enum {
				if !ValueEqual(v, e) {
					continue
				}
				eg, err := e.Go()
				if err != nil {
					continue
				}
				et := reflect.TypeOf(eg)
				if rv.Type().ConvertibleTo(et) && reflect.DeepEqual(rv.Convert(et).Interface(), eg) {
					return true
				}
			}
			tr.Touched[DevEnumTypedSlice] = true
			return false
		}
		return true
	}
	for _, e := range enum {
		// region of DevEnumIntString: integer-kinded value, string entry equal to the value read as a code point
		if o.Dev[DevEnumIntString] && IsIntegerKind(v.Kind) && e.Kind == KString {
			if rv.Convert(scalarTypes[KString]).String() == e.Str {
				tr.Touched[DevEnumIntString] = true
				return true
			}
		}
		// region of DevEnumLossy: float value with a fractional part, Go int entry equal to the truncated value
		if o.Dev[DevEnumLossy] && IsFloatKind(v.Kind) && e.Kind == "int" {
			r, ok1 := v.Rat()
			er, ok2 := e.Rat()
			if ok1 && ok2 && !r.IsInt() {
				t := new(big.Rat).SetInt(truncated(r))
				if t.Cmp(er) == 0 {
					tr.Touched[DevEnumLossy] = true
					return true
				}
			}
		}
	}
	return false
}
