package simplemodel

// Deviation modes of the simple-schema part (the numeric ones are in num.go).
const (
	// DevItemFormat: in parameter/header validators the string format declared
	// on items is never asserted (formats.go formatValidator.Applies consults
	// the root parameter/header, whose format is empty for arrays).
	DevItemFormat = "items_format_not_asserted"
	// DevFormatSkipsType: a declared non-numeric type together with a format
	// accepts any slice (and any string) without looking at the type (type.go:200).
	DevFormatSkipsType = "format_skips_type_check"
	// DevHeaderEmptyRequired: HeaderValidator treats the string value "" as a
	// missing required value although a header cannot declare "required".
	DevHeaderEmptyRequired = "header_empty_string_required"
	// DevEnumIntString: an integer-kinded value v matches the enum string
	// string(rune(v)) (reflect conversion int -> string in basicCommonValidator).
	DevEnumIntString = "enum_int_to_string_conversion"
	// DevEnumLossy: a fractional float value matches the Go-int enum value it
	// truncates to (reflect conversion float -> int in basicCommonValidator).
	DevEnumLossy = "enum_lossy_numeric_conversion"
	// DevEnumTypedSlice: an array value only matches an array enum value when
	// both have identical Go types down to every element.
	DevEnumTypedSlice = "enum_array_go_types"
)

// AllDeviations lists every deviation mode in a fixed order.
var AllDeviations = []string{
	DevIntTrunc, DevMultAccept, DevMultReject,
	DevItemFormat, DevFormatSkipsType, DevHeaderEmptyRequired,
	DevEnumIntString, DevEnumLossy, DevEnumTypedSlice,
}
