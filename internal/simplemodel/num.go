// Package simplemodel is the reference evaluator for Swagger simple schemas
// (non-body parameters, headers, items) and for the numeric keywords shared
// with JSON schema validation. It is written from the documented rules only:
// numbers are exact rationals (math/big), never floats, and the Go kind that
// carries a number plays no role in the strict verdict.
//
// Beside the strict verdict the package offers "deviation modes": named
// switches that reproduce, exactly and only inside a narrow region of inputs,
// a confirmed defect of the library. A check uses them to tell a listed
// finding from a new violation. With no switch on, the evaluator is strict.
package simplemodel

import (
	"encoding/json"
	"math"
	"math/big"
	"reflect"
	"regexp"
	"strconv"
	"strings"

	"github.com/go-openapi/swag"
)

// Names of the Go kinds that can carry a number.
const (
	JSONNumber = "json.Number"
	KString    = "string"
	KBool      = "bool"
	KSlice     = "slice"
	// KNil is an untyped nil element of a []interface{} slice (a JSON null inside an array value)
	KNil = "nil"
)

var (
	SignedKinds   = []string{"int", "int8", "int16", "int32", "int64"}
	UnsignedKinds = []string{"uint", "uint8", "uint16", "uint32", "uint64"}
	FloatKinds    = []string{"float32", "float64"}
	// GoNumericKinds are the 12 native numeric kinds, in a fixed order.
	GoNumericKinds = []string{"int", "int8", "int16", "int32", "int64", "uint", "uint8", "uint16", "uint32", "uint64", "float32", "float64"}
)

// Limit is 2^53-1 (ECMA MAX_SAFE_INTEGER): numbers of larger magnitude are
// outside the domain of the numeric properties. "Within ±2^53" is read as the
// safe-integer range, the range the library documents for integers carried by
// a float64 (swag.IsFloat64AJSONInteger).
const Limit = int64(1)<<53 - 1

func in(list []string, s string) bool {
	for _, x := range list {
		if x == s {
			return true
		}
	}
	return false
}

func IsSigned(k string) bool      { return in(SignedKinds, k) }
func IsUnsigned(k string) bool    { return in(UnsignedKinds, k) }
func IsFloatKind(k string) bool   { return in(FloatKinds, k) }
func IsIntegerKind(k string) bool { return IsSigned(k) || IsUnsigned(k) }
func IsNumericKind(k string) bool { return in(GoNumericKinds, k) }

// KindRange returns the inclusive range of an integer kind cut to ±Limit.
func KindRange(k string) (lo, hi int64, ok bool) {
	switch k {
	case "int8":
		return math.MinInt8, math.MaxInt8, true
	case "int16":
		return math.MinInt16, math.MaxInt16, true
	case "int32":
		return math.MinInt32, math.MaxInt32, true
	case "int", "int64":
		return -Limit, Limit, true
	case "uint8":
		return 0, math.MaxUint8, true
	case "uint16":
		return 0, math.MaxUint16, true
	case "uint32":
		return 0, math.MaxUint32, true
	case "uint", "uint64":
		return 0, Limit, true
	}
	return 0, 0, false
}

var numberText = regexp.MustCompile(`^-?[0-9]+(\.[0-9]+)?([eE][+-]?[0-9]{1,3})?$`)

// ParseRat reads a JSON-style decimal number text as an exact rational.
func ParseRat(text string) (*big.Rat, bool) {
	if !numberText.MatchString(text) {
		return nil, false
	}
	r, ok := new(big.Rat).SetString(text)
	return r, ok
}

// RatText prints a rational with a finite decimal expansion as plain decimal
// text (no exponent); ok is false when the expansion is not finite or longer
// than 40 fractional digits.
func RatText(r *big.Rat) (string, bool) {
	if r.IsInt() {
		return r.Num().String(), true
	}
	ten := big.NewInt(10)
	scaled := new(big.Rat).Set(r)
	for n := 1; n <= 40; n++ {
		scaled.Mul(scaled, new(big.Rat).SetInt(ten))
		if scaled.IsInt() {
			return r.FloatString(n), true
		}
	}
	return "", false
}

// MustText is RatText for values known to be finite decimals.
func MustText(r *big.Rat) string {
	s, ok := RatText(r)
	if !ok {
		panic("simplemodel: not a finite decimal: " + r.String())
	}
	return s
}

// IsInt tells whether a rational is an integer.
func IsInt(r *big.Rat) bool { return r.IsInt() }

// FracDigits counts the fractional decimal digits of a finite decimal (-1 if not finite).
func FracDigits(r *big.Rat) int {
	s, ok := RatText(r)
	if !ok {
		return -1
	}
	if i := strings.IndexByte(s, '.'); i >= 0 {
		return len(s) - i - 1
	}
	return 0
}

// Float64Rat is the number a float64 stands for: the decimal reading of its
// shortest round-trip text (how the author of "0.1" means it). For integers
// and short dyadic fractions this is also the exact binary value.
func Float64Rat(f float64) (*big.Rat, bool) {
	if math.IsNaN(f) || math.IsInf(f, 0) {
		return nil, false
	}
	return ParseRat(strconv.FormatFloat(f, 'g', -1, 64))
}

// Float32Rat is the exact binary value of a float32.
func Float32Rat(f float32) (*big.Rat, bool) {
	if math.IsNaN(float64(f)) || math.IsInf(float64(f), 0) {
		return nil, false
	}
	return new(big.Rat).SetFloat64(float64(f)), true
}

// FloatFor returns the float64 that stands for the decimal text: ok only when
// the float64 nearest to the text reads back (Float64Rat) as exactly that number.
func FloatFor(text string) (float64, bool) {
	r, ok := ParseRat(text)
	if !ok {
		return 0, false
	}
	f, err := strconv.ParseFloat(text, 64)
	if err != nil {
		return 0, false
	}
	back, ok := Float64Rat(f)
	if !ok || back.Cmp(r) != 0 {
		return 0, false
	}
	return f, true
}

// Carry builds the Go value of the named kind that carries exactly the number
// written as text; ok is false when the kind cannot carry it exactly. For
// json.Number the text itself is the carrier.
func Carry(kind, text string) (interface{}, bool) {
	r, ok := ParseRat(text)
	if !ok {
		return nil, false
	}
	switch {
	case kind == JSONNumber:
		return json.Number(text), true
	case kind == "float64":
		f, ok := FloatFor(text)
		return f, ok
	case kind == "float32":
		f, err := strconv.ParseFloat(text, 32)
		if err != nil {
			return nil, false
		}
		f32 := float32(f)
		back, ok := Float32Rat(f32)
		if !ok || back.Cmp(r) != 0 {
			return nil, false
		}
		return f32, true
	case IsSigned(kind):
		if !r.IsInt() || !r.Num().IsInt64() {
			return nil, false
		}
		n := r.Num().Int64()
		switch kind {
		case "int":
			if int64(int(n)) == n {
				return int(n), true
			}
		case "int8":
			if int64(int8(n)) == n {
				return int8(n), true
			}
		case "int16":
			if int64(int16(n)) == n {
				return int16(n), true
			}
		case "int32":
			if int64(int32(n)) == n {
				return int32(n), true
			}
		case "int64":
			return n, true
		}
		return nil, false
	case IsUnsigned(kind):
		if !r.IsInt() || !r.Num().IsUint64() {
			return nil, false
		}
		n := r.Num().Uint64()
		switch kind {
		case "uint":
			if uint64(uint(n)) == n {
				return uint(n), true
			}
		case "uint8":
			if uint64(uint8(n)) == n {
				return uint8(n), true
			}
		case "uint16":
			if uint64(uint16(n)) == n {
				return uint16(n), true
			}
		case "uint32":
			if uint64(uint32(n)) == n {
				return uint32(n), true
			}
		case "uint64":
			return n, true
		}
		return nil, false
	}
	return nil, false
}

// KindOf names the carrier kind of a Go value ("" if it is not one this package knows).
func KindOf(v interface{}) string {
	switch v.(type) {
	case json.Number:
		return JSONNumber
	case nil:
		return ""
	}
	switch k := reflect.TypeOf(v).Kind(); k { //nolint:exhaustive
	case reflect.Int, reflect.Int8, reflect.Int16, reflect.Int32, reflect.Int64,
		reflect.Uint, reflect.Uint8, reflect.Uint16, reflect.Uint32, reflect.Uint64,
		reflect.Float32, reflect.Float64, reflect.String, reflect.Bool, reflect.Slice:
		return k.String()
	}
	return ""
}

// ValueRat is the number carried by a Go value.
func ValueRat(v interface{}) (*big.Rat, bool) {
	switch x := v.(type) {
	case json.Number:
		return ParseRat(string(x))
	case float64:
		return Float64Rat(x)
	case float32:
		return Float32Rat(x)
	case nil:
		return nil, false
	}
	rv := reflect.ValueOf(v)
	switch rv.Kind() { //nolint:exhaustive
	case reflect.Int, reflect.Int8, reflect.Int16, reflect.Int32, reflect.Int64:
		return new(big.Rat).SetInt64(rv.Int()), true
	case reflect.Uint, reflect.Uint8, reflect.Uint16, reflect.Uint32, reflect.Uint64:
		return new(big.Rat).SetInt(new(big.Int).SetUint64(rv.Uint())), true
	}
	return nil, false
}

// Numeric keywords.
const (
	Minimum          = "minimum"
	ExclusiveMinimum = "exclusiveMinimum"
	Maximum          = "maximum"
	ExclusiveMaximum = "exclusiveMaximum"
	MultipleOf       = "multipleOf"
)

// NumericKeywords lists the five constraint kinds in a fixed order.
var NumericKeywords = []string{Minimum, ExclusiveMinimum, Maximum, ExclusiveMaximum, MultipleOf}

// Quotient returns v/c.
func Quotient(v, c *big.Rat) *big.Rat { return new(big.Rat).Quo(v, c) }

// Strict is the exact verdict of one numeric keyword on the mathematical
// values: v the instance, c the constraint (c > 0 for multipleOf).
func Strict(keyword string, v, c *big.Rat) bool {
	switch keyword {
	case Minimum:
		return v.Cmp(c) >= 0
	case ExclusiveMinimum:
		return v.Cmp(c) > 0
	case Maximum:
		return v.Cmp(c) <= 0
	case ExclusiveMaximum:
		return v.Cmp(c) < 0
	case MultipleOf:
		if c.Sign() <= 0 {
			return false
		}
		return Quotient(v, c).IsInt()
	}
	panic("simplemodel: unknown numeric keyword " + keyword)
}

// Deviation modes of the numeric part.
const (
	// DevIntTrunc: for a value of an integer Go kind the library converts the
	// float64 constraint to int64/uint64, dropping its fractional part
	// (values.go *NativeType helpers).
	DevIntTrunc = "native_int_fractional_bound"
	// DevMultAccept / DevMultReject: for a value of a float Go kind multipleOf
	// is decided by float64 division (or multiplication by 1/factor) followed
	// by a tolerance-based "is an integer" test (values.go MultipleOf).
	DevMultAccept = "multipleof_float_false_accept"
	DevMultReject = "multipleof_float_false_reject"
)

// Dev is the set of deviation modes that are switched on.
type Dev map[string]bool

// Touched collects the deviation modes that changed a decision.
type Touched map[string]bool

func (t Touched) Names() []string {
	var out []string
	for _, n := range AllDeviations {
		if t[n] {
			out = append(out, n)
		}
	}
	return out
}

// truncated is the library's conversion of the float64 constraint for integer
// kinds: toward zero.
func truncated(c *big.Rat) *big.Int {
	q := new(big.Int).Quo(c.Num(), c.Denom()) // big.Int.Quo truncates toward zero
	return q
}

// intTruncVerdict replicates the verdict of the *NativeType helpers for a
// value of an integer kind.
func intTruncVerdict(keyword string, unsigned bool, v, c *big.Rat) bool {
	if unsigned && c.Sign() < 0 {
		switch keyword {
		case Minimum, ExclusiveMinimum:
			return true
		case Maximum, ExclusiveMaximum:
			return false
		}
		// multipleOf: uint64(negative float) is not portable; c > 0 in the domain
		return false
	}
	ct := new(big.Rat).SetInt(truncated(c))
	if keyword == MultipleOf {
		if ct.Sign() <= 0 {
			return false // "factor must be positive"
		}
	}
	return Strict(keyword, v, ct)
}

// floatMultipleVerdict replicates values.go MultipleOf on float64 operands.
func floatMultipleVerdict(data, factor float64) bool {
	if factor <= 0 {
		return false
	}
	var mult float64
	if factor < 1 {
		mult = 1 / factor * data
	} else {
		mult = data / factor
	}
	return swag.IsFloat64AJSONInteger(mult)
}

// AsFloat64 converts a native numeric Go value to float64 the way Go does.
func AsFloat64(v interface{}) (float64, bool) {
	rv := reflect.ValueOf(v)
	switch rv.Kind() { //nolint:exhaustive
	case reflect.Int, reflect.Int8, reflect.Int16, reflect.Int32, reflect.Int64:
		return float64(rv.Int()), true
	case reflect.Uint, reflect.Uint8, reflect.Uint16, reflect.Uint32, reflect.Uint64:
		return float64(rv.Uint()), true
	case reflect.Float32, reflect.Float64:
		return rv.Float(), true
	}
	return 0, false
}

// NumericVerdict decides one numeric keyword for the native numeric Go value
// goVal against the float64 constraint c. With dev == nil it is Strict on the
// numbers carried. A deviation mode that is switched on replaces the strict
// verdict by the library's replica only inside its region, and is recorded in
// touched only when that changes the verdict.
func NumericVerdict(keyword string, goVal interface{}, c float64, dev Dev, touched Touched) (verdict bool, ok bool) {
	v, ok1 := ValueRat(goVal)
	cr, ok2 := Float64Rat(c)
	if !ok1 || !ok2 {
		return false, false
	}
	strict := Strict(keyword, v, cr)
	kind := KindOf(goVal)
	switch {
	case IsIntegerKind(kind):
		if dev[DevIntTrunc] && !cr.IsInt() {
			if r := intTruncVerdict(keyword, IsUnsigned(kind), v, cr); r != strict {
				touched[DevIntTrunc] = true
				return r, true
			}
		}
	case IsFloatKind(kind):
		if keyword == MultipleOf && (dev[DevMultAccept] || dev[DevMultReject]) {
			data, _ := AsFloat64(goVal)
			r := floatMultipleVerdict(data, c)
			if r && !strict && dev[DevMultAccept] && nearInteger(Quotient(v, cr)) {
				touched[DevMultAccept] = true
				return r, true
			}
			if !r && strict && dev[DevMultReject] {
				touched[DevMultReject] = true
				return r, true
			}
		}
	}
	return strict, true
}

// nearInteger is the region of DevMultAccept: the quotient is within a
// relative 2.1e-9 of an integer (the library's tolerance is 1e-9 on
// |q-trunc(q)|/(|q|+|trunc(q)|), evaluated in float64).
func nearInteger(q *big.Rat) bool {
	if q.IsInt() {
		return true
	}
	fl := new(big.Int).Div(q.Num(), q.Denom()) // Euclidean: floor for positive denominators
	lo := new(big.Rat).Sub(q, new(big.Rat).SetInt(fl))
	hi := new(big.Rat).Sub(big.NewRat(1, 1), lo)
	d := lo
	if hi.Cmp(lo) < 0 {
		d = hi
	}
	aq := new(big.Rat).Abs(q)
	if aq.Sign() == 0 {
		return false
	}
	rel := new(big.Rat).Quo(d, aq)
	return rel.Cmp(big.NewRat(21, 10_000_000_000)) < 0
}
