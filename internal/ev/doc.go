package ev
