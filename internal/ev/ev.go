// Package ev is the small runtime shared by every check package: it runs a
// rapid property over a JSON-serialisable case type, keeps coverage counters
// (evaluations, distinct non-trivial cases by content hash, class histogram,
// samples, known-finding hits), writes them where the driver asks, records the
// case being executed (so a fatal crash of the process can be replayed) and the
// last failing case (rapid runs the minimal case last, so the last write is the
// shrunk one), and offers a rapid-free replay entry.
//
// Environment (all set by cmd/verifrun; every variable is optional so the
// packages also work under a plain `go test`):
//
//	VERIF_STATS    path of the JSON statistics file written at process exit
//	VERIF_HASHES   path of the binary file of 8-byte hashes of non-trivial cases
//	VERIF_CURRENT  path that receives the case about to be executed
//	VERIF_FAIL     path that receives the most recent failing case
//	VERIF_REPLAY   list of replay files separated by the OS list separator
//	VERIF_KNOWN    path of known_findings.json (default /verif/known_findings.json)
//	VERIF_NO_KNOWN when "1", no known-finding matcher is active
//	VERIF_TIER     quick | thorough
package ev

import (
	"encoding/binary"
	"encoding/json"
	"fmt"
	"hash/fnv"
	"os"
	"path/filepath"
	"sort"
	"strings"
	"sync"
	"testing"

	"pgregory.net/rapid"
)

// Outcome is what a check function reports for one case.
type Outcome struct {
	// Fail is empty when the property held on this case.
	Fail string
	// Nontrivial tells whether the case counts as non-trivial by the rule of the property.
	Nontrivial bool
	// Classes are labels counted in the class histogram.
	Classes []string
	// Known lists the ids of open known findings this case fell under (the
	// deviation was exactly the listed one); such a case is not a failure.
	Known []string
	// Excluded lists reasons why (part of) the case was outside the domain.
	Excluded []string
	// Extra integer counters, summed.
	Counters map[string]int64
}

// Failf builds a failing outcome.
func Failf(format string, a ...any) Outcome { return Outcome{Fail: fmt.Sprintf(format, a...)} }

type stats struct {
	mu          sync.Mutex
	Property    string            `json:"property"`
	Evaluations int64             `json:"evaluations"`
	Nontrivial  int64             `json:"nontrivial_total"`
	Distinct    int64             `json:"distinct_nontrivial"`
	Failures    int64             `json:"failures"`
	Classes     map[string]int64  `json:"classes"`
	Known       map[string]int64  `json:"known_finding_hits"`
	Excluded    map[string]int64  `json:"excluded"`
	Counters    map[string]int64  `json:"counters"`
	Samples     []json.RawMessage `json:"samples"`
	Notes       []string          `json:"notes"`
	Rule        string            `json:"rule"`
	Assumptions []string          `json:"assumptions"`
	hashes      map[uint64]struct{}
}

var st = stats{
	Classes:  map[string]int64{},
	Known:    map[string]int64{},
	Excluded: map[string]int64{},
	Counters: map[string]int64{},
	hashes:   map[uint64]struct{}{},
}

const maxSamples = 8

// Describe records the generation / non-triviality rule and the assumptions of
// the check; both are copied into the evidence file.
func Describe(rule string, assumptions ...string) {
	st.mu.Lock()
	st.Rule = rule
	st.Assumptions = assumptions
	st.mu.Unlock()
}

// Note adds a free-text note to the statistics (deduplicated).
func Note(s string) {
	st.mu.Lock()
	defer st.mu.Unlock()
	for _, n := range st.Notes {
		if n == s {
			return
		}
	}
	if len(st.Notes) < 50 {
		st.Notes = append(st.Notes, s)
	}
}

// Count adds n to a named counter.
func Count(name string, n int64) {
	st.mu.Lock()
	st.Counters[name] += n
	st.mu.Unlock()
}

func hashBytes(b []byte) uint64 {
	h := fnv.New64a()
	_, _ = h.Write(b)
	return h.Sum64()
}

func record(raw []byte, o Outcome) {
	st.mu.Lock()
	defer st.mu.Unlock()
	st.Evaluations++
	for _, c := range o.Classes {
		st.Classes[c]++
	}
	for _, k := range o.Known {
		st.Known[k]++
	}
	for _, k := range o.Excluded {
		st.Excluded[k]++
	}
	for k, v := range o.Counters {
		st.Counters[k] += v
	}
	if o.Fail != "" {
		st.Failures++
	}
	if o.Nontrivial {
		st.Nontrivial++
		h := hashBytes(raw)
		if _, ok := st.hashes[h]; !ok {
			st.hashes[h] = struct{}{}
			st.Distinct++
			// keep samples spread over the run: first few, then every 2^k-th distinct case
			if len(st.Samples) < maxSamples/2 || (len(st.Samples) < maxSamples && st.Distinct&(st.Distinct-1) == 0) {
				if len(raw) <= 6000 {
					st.Samples = append(st.Samples, json.RawMessage(append([]byte(nil), raw...)))
				}
			}
		}
	}
}

func writeFile(path string, b []byte) {
	if path == "" {
		return
	}
	tmp := path + ".tmp"
	if err := os.WriteFile(tmp, b, 0o644); err == nil {
		_ = os.Rename(tmp, path)
	}
}

// ReplayFile is the on-disk format of a replayable case.
type ReplayFile struct {
	Property string          `json:"property"`
	Fail     string          `json:"fail,omitempty"`
	Case     json.RawMessage `json:"case"`
}

// Main is the TestMain body of every check package.
func Main(m *testing.M, property string) {
	st.Property = property
	loadKnown(property)
	code := m.Run()
	flush()
	os.Exit(code)
}

func flush() {
	st.mu.Lock()
	defer st.mu.Unlock()
	pid := fmt.Sprint(os.Getpid())
	if p := os.Getenv("VERIF_STATS"); p != "" {
		p = strings.ReplaceAll(p, "%p", pid)
		b, _ := json.MarshalIndent(&st, "", " ")
		writeFile(p, b)
	}
	if p := os.Getenv("VERIF_HASHES"); p != "" {
		p = strings.ReplaceAll(p, "%p", pid)
		buf := make([]byte, 0, 8*len(st.hashes))
		hs := make([]uint64, 0, len(st.hashes))
		for h := range st.hashes {
			hs = append(hs, h)
		}
		sort.Slice(hs, func(i, j int) bool { return hs[i] < hs[j] })
		for _, h := range hs {
			buf = binary.LittleEndian.AppendUint64(buf, h)
		}
		writeFile(p, buf)
	}
}

// Tier returns "quick" or "thorough".
func Tier() string {
	if os.Getenv("VERIF_TIER") == "thorough" {
		return "thorough"
	}
	return "quick"
}

// Thorough tells whether the thorough tier is running.
func Thorough() bool { return Tier() == "thorough" }

// Prop runs a rapid property: gen draws a case, check evaluates it without any
// further randomness. crashy asks for the case to be written to VERIF_CURRENT
// before it is executed (only worth its cost for checks whose cases are slow or
// may kill the process).
func Prop[C any](t *testing.T, crashy bool, gen func(*rapid.T) C, check func(C) Outcome) {
	t.Helper()
	rapid.Check(t, propBody(crashy, gen, check))
}

// FuzzProp drives the same property with Go's native coverage-guided fuzzer
// (the fuzzer's bytes are rapid's source of randomness).
func FuzzProp[C any](f *testing.F, crashy bool, gen func(*rapid.T) C, check func(C) Outcome) {
	f.Fuzz(rapid.MakeFuzz(propBody(crashy, gen, check)))
}

func propBody[C any](crashy bool, gen func(*rapid.T) C, check func(C) Outcome) func(*rapid.T) {
	cur := strings.ReplaceAll(os.Getenv("VERIF_CURRENT"), "%p", fmt.Sprint(os.Getpid()))
	failp := os.Getenv("VERIF_FAIL")
	return func(rt *rapid.T) {
		c := gen(rt)
		raw, err := json.Marshal(c)
		if err != nil {
			rt.Fatalf("harness: case does not marshal: %v", err)
		}
		if crashy && cur != "" {
			b, _ := json.Marshal(ReplayFile{Property: st.Property, Case: raw})
			writeFile(cur, b)
		}
		o := check(c)
		record(raw, o)
		if o.Fail != "" {
			b, _ := json.MarshalIndent(ReplayFile{Property: st.Property, Fail: o.Fail, Case: raw}, "", " ")
			writeFile(failp, b)
			rt.Fatalf("property %s violated: %s\ncase: %s", st.Property, o.Fail, truncate(string(raw), 4000))
		}
	}
}

func truncate(s string, n int) string {
	if len(s) <= n {
		return s
	}
	return s[:n] + "…"
}

// Replay executes every file of VERIF_REPLAY through check and prints one line
// per file: "REPLAY <path> PASS" or "REPLAY <path> FAIL <message>". The test
// itself fails if any file fails, unless VERIF_REPLAY_EXPECT=fail-ok.
func Replay[C any](t *testing.T, check func(C) Outcome) {
	list := os.Getenv("VERIF_REPLAY")
	if list == "" {
		t.Skip("no VERIF_REPLAY")
	}
	bad := 0
	for _, p := range filepath.SplitList(list) {
		if p == "" {
			continue
		}
		b, err := os.ReadFile(p)
		if err != nil {
			fmt.Printf("REPLAY %s ERROR %v\n", p, err)
			bad++
			continue
		}
		var rf ReplayFile
		if err := json.Unmarshal(b, &rf); err != nil {
			fmt.Printf("REPLAY %s ERROR %v\n", p, err)
			bad++
			continue
		}
		var c C
		if err := json.Unmarshal(rf.Case, &c); err != nil {
			fmt.Printf("REPLAY %s ERROR case: %v\n", p, err)
			bad++
			continue
		}
		fmt.Printf("REPLAY-START %s\n", p)
		o := check(c)
		raw, _ := json.Marshal(c)
		record(raw, o)
		if o.Fail != "" {
			fmt.Printf("REPLAY %s FAIL %s\n", p, strings.ReplaceAll(truncate(o.Fail, 1500), "\n", " | "))
			bad++
		} else {
			known := ""
			if len(o.Known) > 0 {
				known = " known=" + strings.Join(o.Known, ",")
			}
			fmt.Printf("REPLAY %s PASS%s\n", p, known)
		}
	}
	if bad > 0 && os.Getenv("VERIF_REPLAY_EXPECT") != "fail-ok" {
		t.Fail()
	}
}
