package ev

import (
	"encoding/json"
	"os"
)

// Finding is one entry of /verif/known_findings.json.
type Finding struct {
	ID         string   `json:"id"`
	Properties []string `json:"properties"`
	// Status is "open" (recorded, not repaired) or "fixed" (repaired by Commit).
	Status string `json:"status"`
	Commit string `json:"commit,omitempty"`
	Anchor string `json:"anchor,omitempty"`
	What   string `json:"what"`
	// Matcher names the deviation mode / region predicate compiled into the
	// checks that identifies exactly this finding. Only open findings activate it.
	Matcher string `json:"matcher,omitempty"`
	// Witnesses are replay files (relative to /verif), keyed by property id.
	Witnesses map[string][]string `json:"witnesses,omitempty"`
	// Crash tells that the witness kills the process with a Go fatal error
	// instead of failing the check function.
	Crash bool `json:"crash,omitempty"`
}

// KnownFile is the top-level structure of known_findings.json.
type KnownFile struct {
	Findings []Finding `json:"findings"`
}

var openMatchers = map[string]string{} // matcher -> finding id

// LoadKnownFile reads the known-findings file.
func LoadKnownFile(path string) (KnownFile, error) {
	var kf KnownFile
	b, err := os.ReadFile(path)
	if err != nil {
		return kf, err
	}
	err = json.Unmarshal(b, &kf)
	return kf, err
}

func loadKnown(property string) {
	if os.Getenv("VERIF_NO_KNOWN") == "1" {
		return
	}
	p := os.Getenv("VERIF_KNOWN")
	if p == "" {
		p = "/verif/known_findings.json"
	}
	kf, err := LoadKnownFile(p)
	if err != nil {
		return
	}
	for _, f := range kf.Findings {
		if f.Status != "open" || f.Matcher == "" {
			continue
		}
		for _, pr := range f.Properties {
			if pr == property {
				openMatchers[f.Matcher] = f.ID
			}
		}
	}
}

// KnownOpen tells whether the named matcher belongs to an open finding of the
// property under test, and returns the finding id.
func KnownOpen(matcher string) (string, bool) {
	id, ok := openMatchers[matcher]
	return id, ok
}
