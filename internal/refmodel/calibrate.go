package refmodel

import (
	"fmt"
	"os"
	"path/filepath"
	"sort"
	"strings"
)

// Calibrate runs the evaluator over every labelled case of the draft-4
// JSON-Schema-Test-Suite files found in dir (non-recursive, so the optional
// directory is left out), skipping refRemote.json (network) and cases whose
// schema uses a non-local $ref. It returns the number of labelled instances
// evaluated, the number skipped and a description of every disagreement.
func Calibrate(dir string, formats FormatFunc) (evaluated, skipped int, mismatches []string) {
	files, _ := filepath.Glob(filepath.Join(dir, "*.json"))
	sort.Strings(files)
	for _, f := range files {
		base := filepath.Base(f)
		if base == "refRemote.json" {
			continue
		}
		b, err := os.ReadFile(f)
		if err != nil {
			mismatches = append(mismatches, fmt.Sprintf("%s: %v", base, err))
			continue
		}
		doc, err := Decode(b)
		if err != nil {
			mismatches = append(mismatches, fmt.Sprintf("%s: %v", base, err))
			continue
		}
		groups, _ := doc.([]any)
		for _, g := range groups {
			gm, _ := g.(map[string]any)
			schema := gm["schema"]
			tests, _ := gm["tests"].([]any)
			if hasRemoteRef(schema) {
				skipped += len(tests)
				continue
			}
			for _, t := range tests {
				tm, _ := t.(map[string]any)
				want, _ := tm["valid"].(bool)
				e := &Evaluator{Root: schema, Formats: formats}
				got := e.Valid(schema, tm["data"])
				evaluated++
				if got != want {
					mismatches = append(mismatches, fmt.Sprintf("%s / %v / %v: model says %v, suite says %v", base, gm["description"], tm["description"], got, want))
				}
			}
		}
	}
	return
}

func hasRemoteRef(v any) bool {
	switch x := v.(type) {
	case map[string]any:
		for k, w := range x {
			if k == "$ref" {
				if s, ok := w.(string); ok && !strings.HasPrefix(s, "#") {
					return true
				}
			}
			if hasRemoteRef(w) {
				return true
			}
		}
	case []any:
		for _, w := range x {
			if hasRemoteRef(w) {
				return true
			}
		}
	}
	return false
}
