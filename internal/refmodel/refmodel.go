// Package refmodel is an independent reference evaluator for JSON Schema
// draft 4, working directly on decoded JSON (numbers kept as json.Number and
// compared as exact rationals). It shares no code with go-openapi/validate.
//
// It is calibrated against the JSON-Schema-Test-Suite draft-4 files shipped in
// /repo/fixtures/jsonschema_suite (see refmodel_test.go and the calibration
// step of check C01).
package refmodel

import (
	"bytes"
	"encoding/json"
	"fmt"
	"math/big"
	"net/url"
	"regexp"
	"sort"
	"strconv"
	"strings"
	"unicode/utf8"
)

// Decode parses JSON text keeping numbers as json.Number.
func Decode(text []byte) (any, error) {
	d := json.NewDecoder(bytes.NewReader(text))
	d.UseNumber()
	var v any
	if err := d.Decode(&v); err != nil {
		return nil, err
	}
	// trailing garbage?
	var extra any
	if err := d.Decode(&extra); err == nil {
		return nil, fmt.Errorf("trailing data after JSON value")
	}
	return v, nil
}

// MustDecode is Decode for texts known to be well formed.
func MustDecode(text string) any {
	v, err := Decode([]byte(text))
	if err != nil {
		panic(fmt.Sprintf("refmodel.MustDecode(%q): %v", text, err))
	}
	return v
}

// Rat converts a JSON number (json.Number, or the float64/int kinds produced by
// other decoders) to an exact rational. ok is false for non-numbers.
func Rat(v any) (*big.Rat, bool) {
	switch n := v.(type) {
	case json.Number:
		r, ok := new(big.Rat).SetString(string(n))
		return r, ok
	case float64:
		r, ok := new(big.Rat).SetString(strconv.FormatFloat(n, 'g', -1, 64))
		return r, ok
	case int:
		return new(big.Rat).SetInt64(int64(n)), true
	case int64:
		return new(big.Rat).SetInt64(n), true
	}
	return nil, false
}

// Kind names the JSON kind of a decoded value.
func Kind(v any) string {
	switch x := v.(type) {
	case nil:
		return "null"
	case bool:
		return "boolean"
	case json.Number, float64, int, int64:
		return "number"
	case string:
		return "string"
	case []any:
		return "array"
	case map[string]any:
		return "object"
	default:
		_ = x
		return "unknown"
	}
}

// Equal is JSON deep equality: numbers by mathematical value, objects unordered.
func Equal(a, b any) bool {
	ka, kb := Kind(a), Kind(b)
	if ka != kb {
		return false
	}
	switch ka {
	case "null":
		return true
	case "boolean":
		return a.(bool) == b.(bool)
	case "number":
		ra, _ := Rat(a)
		rb, _ := Rat(b)
		return ra != nil && rb != nil && ra.Cmp(rb) == 0
	case "string":
		return a.(string) == b.(string)
	case "array":
		x, y := a.([]any), b.([]any)
		if len(x) != len(y) {
			return false
		}
		for i := range x {
			if !Equal(x[i], y[i]) {
				return false
			}
		}
		return true
	case "object":
		x, y := a.(map[string]any), b.(map[string]any)
		if len(x) != len(y) {
			return false
		}
		for k, v := range x {
			w, ok := y[k]
			if !ok || !Equal(v, w) {
				return false
			}
		}
		return true
	}
	return false
}

// Canon renders a decoded value as canonical JSON text (sorted keys, numbers
// as reduced rationals rendered in decimal when finite) for hashing / comparison.
func Canon(v any) string {
	var sb strings.Builder
	canon(&sb, v)
	return sb.String()
}

func canon(sb *strings.Builder, v any) {
	switch x := v.(type) {
	case nil:
		sb.WriteString("null")
	case bool:
		if x {
			sb.WriteString("true")
		} else {
			sb.WriteString("false")
		}
	case json.Number, float64, int, int64:
		r, ok := Rat(x)
		if !ok {
			fmt.Fprintf(sb, "%v", x)
			return
		}
		if r.IsInt() {
			sb.WriteString(r.Num().String())
		} else {
			sb.WriteString(r.RatString())
		}
	case string:
		b, _ := json.Marshal(x)
		sb.Write(b)
	case []any:
		sb.WriteByte('[')
		for i, e := range x {
			if i > 0 {
				sb.WriteByte(',')
			}
			canon(sb, e)
		}
		sb.WriteByte(']')
	case map[string]any:
		keys := make([]string, 0, len(x))
		for k := range x {
			keys = append(keys, k)
		}
		sort.Strings(keys)
		sb.WriteByte('{')
		for i, k := range keys {
			if i > 0 {
				sb.WriteByte(',')
			}
			b, _ := json.Marshal(k)
			sb.Write(b)
			sb.WriteByte(':')
			canon(sb, x[k])
		}
		sb.WriteByte('}')
	default:
		fmt.Fprintf(sb, "%v", x)
	}
}

// FormatFunc answers whether a format name is known and, if so, whether the string satisfies it.
type FormatFunc func(name, s string) (known, ok bool)

// Deviations switches on exact replicas of recorded (open) library findings.
type Deviations struct {
	// AdditionalPropertiesIgnoresIDAndSchema: with additionalProperties:false,
	// members named "id" and "$schema" are not reported.
	AdditionalPropertiesIgnoresIDAndSchema bool
	// NullSkipsComposition: for a null instance only type and enum are
	// evaluated at that schema node; allOf/anyOf/oneOf/not are skipped.
	NullSkipsComposition bool
}

// Evaluator evaluates instances against schemas rooted in Root.
type Evaluator struct {
	Root    any // root schema document for local $ref resolution
	Formats FormatFunc
	Dev     Deviations
	// Fails, when non-nil, collects every location (rendered by Loc) at which a
	// keyword of an evaluated subschema failed.
	Fails map[string]struct{}
	// Remotes maps the URL part of a non-local $ref (without fragment) to the decoded document.
	Remotes map[string]any
	// MaxDepth bounds $ref chasing (generated references never loop).
	depth int
}

// Valid reports whether inst satisfies schema under draft 4.
func (e *Evaluator) Valid(schema, inst any) bool {
	return e.eval(schema, inst, "")
}

// ValidAt is Valid with a root location for the Fails set.
func (e *Evaluator) ValidAt(schema, inst any, loc string) bool {
	return e.eval(schema, inst, loc)
}

func (e *Evaluator) fail(loc string) {
	if e.Fails != nil {
		e.Fails[loc] = struct{}{}
	}
}

// Join extends a location with a member name or index the way the library renders paths.
func Join(loc, member string) string {
	if loc == "" {
		return member
	}
	return loc + "." + member
}

// resolve returns the target of a reference and the document it lives in.
func (e *Evaluator) resolve(ref string) (any, any, bool) {
	cur := e.Root
	if !strings.HasPrefix(ref, "#") {
		i := strings.Index(ref, "#")
		url := ref
		frag := "#"
		if i >= 0 {
			url, frag = ref[:i], ref[i:]
		}
		doc, ok := e.Remotes[url]
		if !ok {
			return nil, nil, false
		}
		cur, ref = doc, frag
	}
	root := cur
	tgt, ok := resolveIn(cur, ref)
	return tgt, root, ok
}

func resolveIn(cur any, ref string) (any, bool) {
	ptr := ref[1:]
	if ptr == "" {
		return cur, true
	}
	if !strings.HasPrefix(ptr, "/") {
		return nil, false
	}
	for _, tok := range strings.Split(ptr[1:], "/") {
		tok = strings.ReplaceAll(strings.ReplaceAll(tok, "~1", "/"), "~0", "~")
		if u, err := urlUnescape(tok); err == nil {
			tok = u
		}
		switch c := cur.(type) {
		case map[string]any:
			n, ok := c[tok]
			if !ok {
				return nil, false
			}
			cur = n
		case []any:
			i, err := strconv.Atoi(tok)
			if err != nil || i < 0 || i >= len(c) {
				return nil, false
			}
			cur = c[i]
		default:
			return nil, false
		}
	}
	return cur, true
}

func urlUnescape(s string) (string, error) {
	if !strings.Contains(s, "%") {
		return s, nil
	}
	return url.PathUnescape(s)
}

func typeMatches(t string, inst any) bool {
	k := Kind(inst)
	switch t {
	case "integer":
		if k != "number" {
			return false
		}
		r, ok := Rat(inst)
		return ok && r.IsInt()
	case "number":
		return k == "number"
	default:
		return t == k
	}
}

func asInt(v any) (int64, bool) {
	r, ok := Rat(v)
	if !ok || !r.IsInt() || !r.Num().IsInt64() {
		return 0, false
	}
	return r.Num().Int64(), true
}

var reCache = map[string]*regexp.Regexp{}

func compile(p string) (*regexp.Regexp, error) {
	if r, ok := reCache[p]; ok {
		return r, nil
	}
	r, err := regexp.Compile(p)
	if err != nil {
		return nil, err
	}
	if len(reCache) < 5000 {
		reCache[p] = r
	}
	return r, nil
}

func sortedKeys(m map[string]any) []string {
	keys := make([]string, 0, len(m))
	for k := range m {
		keys = append(keys, k)
	}
	sort.Strings(keys)
	return keys
}

func (e *Evaluator) eval(schema, inst any, loc string) bool {
	s, ok := schema.(map[string]any)
	if !ok {
		return true // not a draft-4 schema object: no constraint
	}
	if ref, ok := s["$ref"].(string); ok {
		if e.depth > 64 {
			return true
		}
		target, root, found := e.resolve(ref)
		if !found {
			return true
		}
		e.depth++
		saved := e.Root
		e.Root = root
		r := e.eval(target, inst, loc)
		e.Root = saved
		e.depth--
		return r
	}
	valid := true
	bad := func() { valid = false; e.fail(loc) }
	kind := Kind(inst)

	// type
	if t, ok := s["type"]; ok {
		switch tt := t.(type) {
		case string:
			if !typeMatches(tt, inst) {
				bad()
			}
		case []any:
			m := false
			for _, x := range tt {
				if xs, ok := x.(string); ok && typeMatches(xs, inst) {
					m = true
				}
			}
			if !m {
				bad()
			}
		}
	}
	// enum
	if en, ok := s["enum"].([]any); ok {
		m := false
		for _, x := range en {
			if Equal(x, inst) {
				m = true
				break
			}
		}
		if !m {
			bad()
		}
	}
	// numeric
	if kind == "number" {
		v, _ := Rat(inst)
		if mo, ok := Rat(s["multipleOf"]); ok && mo.Sign() > 0 {
			q := new(big.Rat).Quo(v, mo)
			if !q.IsInt() {
				bad()
			}
		}
		if mx, ok := Rat(s["maximum"]); ok {
			excl, _ := s["exclusiveMaximum"].(bool)
			c := v.Cmp(mx)
			if c > 0 || (excl && c == 0) {
				bad()
			}
		}
		if mn, ok := Rat(s["minimum"]); ok {
			excl, _ := s["exclusiveMinimum"].(bool)
			c := v.Cmp(mn)
			if c < 0 || (excl && c == 0) {
				bad()
			}
		}
	}
	// string
	if str, ok := inst.(string); ok {
		n := int64(utf8.RuneCountInString(str))
		if mx, ok := asInt(s["maxLength"]); ok && n > mx {
			bad()
		}
		if mn, ok := asInt(s["minLength"]); ok && n < mn {
			bad()
		}
		if p, ok := s["pattern"].(string); ok {
			if re, err := compile(p); err == nil && !re.MatchString(str) {
				bad()
			}
		}
		if f, ok := s["format"].(string); ok && e.Formats != nil {
			if known, fine := e.Formats(f, str); known && !fine {
				bad()
			}
		}
	}
	// array
	if arr, ok := inst.([]any); ok {
		n := int64(len(arr))
		if mx, ok := asInt(s["maxItems"]); ok && n > mx {
			bad()
		}
		if mn, ok := asInt(s["minItems"]); ok && n < mn {
			bad()
		}
		if u, _ := s["uniqueItems"].(bool); u {
		outer:
			for i := range arr {
				for j := 0; j < i; j++ {
					if Equal(arr[i], arr[j]) {
						bad()
						break outer
					}
				}
			}
		}
		switch items := s["items"].(type) {
		case map[string]any:
			for i, el := range arr {
				if !e.eval(items, el, Join(loc, strconv.Itoa(i))) {
					valid = false
				}
			}
		case []any:
			for i, el := range arr {
				if i < len(items) {
					if !e.eval(items[i], el, Join(loc, strconv.Itoa(i))) {
						valid = false
					}
					continue
				}
				switch ai := s["additionalItems"].(type) {
				case bool:
					if !ai {
						bad()
					}
				case map[string]any:
					if !e.eval(ai, el, Join(loc, strconv.Itoa(i))) {
						valid = false
					}
				}
			}
		}
	}
	// object
	if obj, ok := inst.(map[string]any); ok {
		n := int64(len(obj))
		if mx, ok := asInt(s["maxProperties"]); ok && n > mx {
			bad()
		}
		if mn, ok := asInt(s["minProperties"]); ok && n < mn {
			bad()
		}
		if req, ok := s["required"].([]any); ok {
			for _, r := range req {
				if name, ok := r.(string); ok {
					if _, present := obj[name]; !present {
						valid = false
						e.fail(Join(loc, name))
					}
				}
			}
		}
		props, _ := s["properties"].(map[string]any)
		pprops, _ := s["patternProperties"].(map[string]any)
		for _, k := range sortedKeys(obj) {
			v := obj[k]
			described := false
			if ps, ok := props[k]; ok {
				described = true
				if !e.eval(ps, v, Join(loc, k)) {
					valid = false
				}
			}
			for _, pat := range sortedKeys(pprops) {
				re, err := compile(pat)
				if err != nil {
					continue
				}
				if re.MatchString(k) {
					described = true
					if !e.eval(pprops[pat], v, Join(loc, k)) {
						valid = false
					}
				}
			}
			if !described {
				switch ap := s["additionalProperties"].(type) {
				case bool:
					if !ap {
						if e.Dev.AdditionalPropertiesIgnoresIDAndSchema && (k == "id" || k == "$schema") {
							break
						}
						bad()
					}
				case map[string]any:
					if !e.eval(ap, v, Join(loc, k)) {
						valid = false
					}
				}
			}
		}
		if deps, ok := s["dependencies"].(map[string]any); ok {
			for _, k := range sortedKeys(deps) {
				if _, present := obj[k]; !present {
					continue
				}
				switch d := deps[k].(type) {
				case []any:
					for _, r := range d {
						if name, ok := r.(string); ok {
							if _, present := obj[name]; !present {
								bad()
							}
						}
					}
				case map[string]any:
					if !e.eval(d, inst, loc) {
						valid = false
					}
				}
			}
		}
	}
	// composition
	if inst == nil && e.Dev.NullSkipsComposition {
		return valid
	}
	if all, ok := s["allOf"].([]any); ok {
		for _, sub := range all {
			if !e.eval(sub, inst, loc) {
				valid = false
			}
		}
	}
	if anyOf, ok := s["anyOf"].([]any); ok {
		m := false
		for _, sub := range anyOf {
			if e.quiet(sub, inst) {
				m = true
			}
		}
		if !m {
			bad()
			for _, sub := range anyOf { // record where the alternatives fail
				e.eval(sub, inst, loc)
			}
		}
	}
	if one, ok := s["oneOf"].([]any); ok {
		cnt := 0
		for _, sub := range one {
			if e.quiet(sub, inst) {
				cnt++
			}
		}
		if cnt != 1 {
			bad()
			for _, sub := range one {
				e.eval(sub, inst, loc)
			}
		}
	}
	if not, ok := s["not"]; ok {
		if _, isObj := not.(map[string]any); isObj && e.quiet(not, inst) {
			bad()
		}
	}
	return valid
}

// quiet evaluates without recording failing locations.
func (e *Evaluator) quiet(schema, inst any) bool {
	saved := e.Fails
	e.Fails = nil
	r := e.eval(schema, inst, "")
	e.Fails = saved
	return r
}
