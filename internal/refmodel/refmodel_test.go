package refmodel

import (
	"testing"

	"github.com/go-openapi/strfmt"
)

func TestCalibration(t *testing.T) {
	ff := func(name, s string) (bool, bool) {
		if !strfmt.Default.ContainsName(name) {
			return false, false
		}
		return true, strfmt.Default.Validates(name, s)
	}
	n, sk, mm := Calibrate("/repo/fixtures/jsonschema_suite", ff)
	t.Logf("evaluated %d skipped %d", n, sk)
	for _, m := range mm {
		t.Error(m)
	}
	if n < 250 {
		t.Errorf("only %d labelled cases evaluated", n)
	}
}
