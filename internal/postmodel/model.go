// Package postmodel is the oracle of properties C18 (applying defaults) and
// C19 (pruning): an independent model, written from the statements of the
// properties, of which schemas are *applicable* to every object present in
// the data, and from that of the set of acceptable post-states of
// post.ApplyDefaults and post.Prune. It shares no code with the library under
// test (it only uses the reference evaluator internal/refmodel to decide which
// anyOf/oneOf alternatives are valid).
//
// Applicable schemas. The root schema applies to the root value. If schema s
// applies to a value V then
//   - a sibling-free "$ref" is transparent: its target applies to V;
//   - every member of s.allOf applies to V;
//   - the selected alternative of s.anyOf / s.oneOf applies to V. The
//     statements do not say which valid alternative is selected when several
//     are valid, so every valid alternative is a possible selection (for oneOf
//     exactly one is valid on valid data). One selection is made per anyOf
//     node and value;
//   - if V is an object with member k: s.properties[k] applies to V[k], every
//     s.patternProperties[p] whose pattern matches k applies to V[k], and
//     s.additionalProperties in schema form applies to V[k] when k is neither
//     declared in s.properties nor matched by a pattern of s;
//   - if V is an array: s.items in schema form applies to every element, in
//     tuple form s.items[i] applies to element i and s.additionalItems in
//     schema form to the elements beyond the tuple.
//
// A *closure* is the set of schemas applicable to one value under one choice
// of anyOf alternatives. The acceptable post-states are those obtained from
// some closure at every object and array of the data.
package postmodel

import (
	"fmt"
	"reflect"
	"regexp"
	"sort"
	"strings"

	"verif/internal/refmodel"
)

// Mode selects the post-processing step that is modelled.
type Mode int

const (
	// Defaults models post.ApplyDefaults (C18).
	Defaults Mode = iota
	// Prune models post.Prune (C19).
	Prune
)

// Via is a bit set of the constructs crossed between the root schema and an
// applicable schema.
type Via uint

const (
	ViaAllOf Via = 1 << iota
	ViaAnyOf
	ViaOneOf
	ViaRef
	ViaItems
	ViaPattern
	ViaAddl
)

// Names renders the bit set.
func (v Via) Names() []string {
	var out []string
	for i, n := range []string{"allOf", "anyOf", "oneOf", "$ref", "items", "patternProperties", "additionalProperties"} {
		if v&(1<<uint(i)) != 0 {
			out = append(out, n)
		}
	}
	return out
}

// Composition tells whether a composition construct of the C18 non-triviality
// rule (allOf/anyOf/oneOf/$ref/items) was crossed.
func (v Via) Composition() bool { return v&(ViaAllOf|ViaAnyOf|ViaOneOf|ViaRef|ViaItems) != 0 }

// Deviations switches on exact replicas of recorded library findings.
type Deviations struct {
	// PropertyRefDefaultIgnored: a default declared on the target of a "$ref"
	// property schema is not applied when the schema that declares the property
	// was itself not reached through a "$ref" (the library inspects the
	// unexpanded property schema; schemas below a resolved reference have been
	// expanded as a whole).
	PropertyRefDefaultIgnored bool
}

// Fill records one absent member that received a default.
type Fill struct {
	Depth int // 1 = member of the root object
	Via   Via
	// Choices is the number of distinct defaults the applicable schemas declare for the member.
	Choices int
}

// Removal records one pruned member.
type Removal struct {
	Depth   int // 1 = member of the root object
	InArray bool
}

// Facts describes the accepted post-state (for classification).
type Facts struct {
	Fills        []Fill
	Removals     []Removal
	Kept         int // members present before and after
	KeptDeep     int // of which at depth >= 2 or inside an array element
	Objects      int // objects visited
	MaxDepth     int // deepest object visited (root = 0)
	Ambiguous    int // values with more than one closure
	RefDefaults  int // fills whose default sits behind a $ref property schema
	MultiDefault int // absent members for which several distinct defaults apply
}

func (f *Facts) merge(g *Facts) {
	f.Fills = append(f.Fills, g.Fills...)
	f.Removals = append(f.Removals, g.Removals...)
	f.Kept += g.Kept
	f.KeptDeep += g.KeptDeep
	f.Objects += g.Objects
	if g.MaxDepth > f.MaxDepth {
		f.MaxDepth = g.MaxDepth
	}
	f.Ambiguous += g.Ambiguous
	f.RefDefaults += g.RefDefaults
	f.MultiDefault += g.MultiDefault
}

// AltVerdict logs one evaluation of an anyOf/oneOf alternative by the
// reference evaluator, so that the caller can confirm that the library gives
// the same verdict (verdict agreement is property C01's business; a case in
// which they differ is outside the domain of C18/C19).
type AltVerdict struct {
	Alt   any
	Value any
	Valid bool
}

// Model computes acceptable post-states for one schema document.
type Model struct {
	Root    any
	Formats refmodel.FormatFunc
	Dev     Deviations
	// MaxClosures bounds the number of closures enumerated for one value and
	// MaxSteps the total work; beyond, Overflow is set and Accept returns nil.
	MaxClosures int
	MaxSteps    int

	Overflow bool
	// Err reports an inconsistency between the data and the model's
	// assumptions (no valid alternative under an applicable anyOf, ...): the
	// instance was not valid, or the reference evaluator is broken.
	Err error
	// Alts logs the alternative evaluations made so far (deduplicated).
	Alts []AltVerdict

	steps   int
	altSeen map[[2]uintptr]int
	ev      *refmodel.Evaluator
	res     map[string]*regexp.Regexp
}

// New builds a model for a decoded schema document.
func New(root any, formats refmodel.FormatFunc) *Model {
	return &Model{Root: root, Formats: formats, MaxClosures: 64, MaxSteps: 200000}
}

// sref is a schema that applies to a value, with what was crossed to reach it.
type sref struct {
	schema   any
	expanded bool // reached through a resolved $ref
	via      Via
}

// item is a member of a closure: a resolved schema object.
type item struct {
	node     map[string]any
	expanded bool
	via      Via
}

func ptr(m map[string]any) uintptr { return reflect.ValueOf(m).Pointer() }

func (m *Model) valid(alt any, v any) bool {
	if m.ev == nil {
		m.ev = &refmodel.Evaluator{Root: m.Root, Formats: m.Formats}
	}
	ok := m.ev.Valid(alt, v)
	if am, isMap := alt.(map[string]any); isMap {
		key := [2]uintptr{ptr(am), valuePtr(v)}
		if m.altSeen == nil {
			m.altSeen = map[[2]uintptr]int{}
		}
		if _, seen := m.altSeen[key]; !seen && key[1] != 0 {
			m.altSeen[key] = len(m.Alts)
			m.Alts = append(m.Alts, AltVerdict{Alt: alt, Value: v, Valid: ok})
		} else if key[1] == 0 {
			m.Alts = append(m.Alts, AltVerdict{Alt: alt, Value: v, Valid: ok})
		}
	}
	return ok
}

func valuePtr(v any) uintptr {
	switch x := v.(type) {
	case map[string]any:
		return reflect.ValueOf(x).Pointer()
	case []any:
		if len(x) == 0 {
			return 0
		}
		return reflect.ValueOf(x).Pointer()
	}
	return 0
}

func (m *Model) resolve(ref string) (map[string]any, bool) {
	if !strings.HasPrefix(ref, "#") {
		return nil, false
	}
	p := ref[1:]
	cur := m.Root
	if p == "" {
		r, ok := cur.(map[string]any)
		return r, ok
	}
	if !strings.HasPrefix(p, "/") {
		return nil, false
	}
	for _, tok := range strings.Split(p[1:], "/") {
		tok = strings.ReplaceAll(strings.ReplaceAll(tok, "~1", "/"), "~0", "~")
		c, ok := cur.(map[string]any)
		if !ok {
			return nil, false
		}
		n, ok := c[tok]
		if !ok {
			return nil, false
		}
		cur = n
	}
	r, ok := cur.(map[string]any)
	return r, ok
}

// deref follows a chain of sibling-free references. refs counts the hops.
func (m *Model) deref(s any) (node map[string]any, refs int, ok bool) {
	node, ok = s.(map[string]any)
	if !ok {
		return nil, 0, false
	}
	for {
		ref, isRef := node["$ref"].(string)
		if !isRef {
			return node, refs, true
		}
		if refs > 32 {
			return nil, refs, false
		}
		node, ok = m.resolve(ref)
		if !ok {
			return nil, refs, false
		}
		refs++
	}
}

// closures enumerates the closures of the schemas in start over value v.
func (m *Model) closures(start []sref, v any) [][]item {
	var out [][]item
	m.expand(append([]sref(nil), start...), nil, map[uintptr]bool{}, v, &out)
	return out
}

func (m *Model) expand(queue []sref, acc []item, seen map[uintptr]bool, v any, out *[][]item) {
	for len(queue) > 0 {
		if m.Overflow || m.Err != nil {
			return
		}
		r := queue[0]
		queue = queue[1:]
		node, refs, ok := m.deref(r.schema)
		if !ok {
			continue
		}
		if refs > 0 {
			r.expanded = true
			r.via |= ViaRef
		}
		id := ptr(node)
		if seen[id] {
			continue
		}
		seen[id] = true
		acc = append(acc, item{node: node, expanded: r.expanded, via: r.via})
		if all, ok := node["allOf"].([]any); ok {
			for _, sub := range all {
				queue = append(queue, sref{sub, r.expanded, r.via | ViaAllOf})
			}
		}
		if one, ok := node["oneOf"].([]any); ok {
			var good []any
			for _, sub := range one {
				if m.valid(sub, v) {
					good = append(good, sub)
				}
			}
			if len(good) != 1 {
				m.Err = fmt.Errorf("an applicable oneOf has %d valid alternatives on %s", len(good), refmodel.Canon(v))
				return
			}
			queue = append(queue, sref{good[0], r.expanded, r.via | ViaOneOf})
		}
		if anyOf, ok := node["anyOf"].([]any); ok {
			var good []any
			for _, sub := range anyOf {
				if m.valid(sub, v) {
					good = append(good, sub)
				}
			}
			switch len(good) {
			case 0:
				m.Err = fmt.Errorf("an applicable anyOf has no valid alternative on %s", refmodel.Canon(v))
				return
			case 1:
				queue = append(queue, sref{good[0], r.expanded, r.via | ViaAnyOf})
			default:
				for _, g := range good {
					q2 := append(append([]sref(nil), queue...), sref{g, r.expanded, r.via | ViaAnyOf})
					acc2 := append([]item(nil), acc...)
					seen2 := make(map[uintptr]bool, len(seen))
					for k := range seen {
						seen2[k] = true
					}
					m.expand(q2, acc2, seen2, v, out)
					if m.Overflow || m.Err != nil {
						return
					}
				}
				return
			}
		}
	}
	*out = append(*out, acc)
	if len(*out) > m.MaxClosures {
		m.Overflow = true
	}
}

func (m *Model) re(p string) *regexp.Regexp {
	if m.res == nil {
		m.res = map[string]*regexp.Regexp{}
	}
	if r, ok := m.res[p]; ok {
		return r
	}
	r, err := regexp.Compile(p)
	if err != nil {
		r = nil
	}
	m.res[p] = r
	return r
}

func sortedKeys(x map[string]any) []string {
	keys := make([]string, 0, len(x))
	for k := range x {
		keys = append(keys, k)
	}
	sort.Strings(keys)
	return keys
}

// childStart lists the schemas that apply to member k of an object to which closure c applies.
func (m *Model) childStart(c []item, k string) (start []sref, described bool) {
	for _, x := range c {
		hit := false
		if props, ok := x.node["properties"].(map[string]any); ok {
			if ps, ok := props[k]; ok {
				hit = true
				start = append(start, sref{ps, x.expanded, x.via})
			}
		}
		if pp, ok := x.node["patternProperties"].(map[string]any); ok {
			for _, pat := range sortedKeys(pp) {
				if r := m.re(pat); r != nil && r.MatchString(k) {
					hit = true
					start = append(start, sref{pp[pat], x.expanded, x.via | ViaPattern})
				}
			}
		}
		if ap, ok := x.node["additionalProperties"].(map[string]any); ok {
			// schema-valued additionalProperties describes every member; it
			// *applies* to those that are neither declared nor pattern-matched
			if !hit {
				start = append(start, sref{ap, x.expanded, x.via | ViaAddl})
			}
			hit = true
		}
		if hit {
			described = true
		}
	}
	return start, described
}

// elemStart lists the schemas that apply to element i of an array to which closure c applies.
func (m *Model) elemStart(c []item, i int) (start []sref) {
	for _, x := range c {
		switch it := x.node["items"].(type) {
		case map[string]any:
			start = append(start, sref{it, x.expanded, x.via | ViaItems})
		case []any:
			if i < len(it) {
				start = append(start, sref{it[i], x.expanded, x.via | ViaItems})
			} else if ai, ok := x.node["additionalItems"].(map[string]any); ok {
				start = append(start, sref{ai, x.expanded, x.via | ViaItems})
			}
		}
	}
	return start
}

type dflt struct {
	value any
	via   Via
	ref   bool
}

// defaults lists, per member name, the non-null defaults that the schemas of
// closure c declare for the members of the object they apply to.
func (m *Model) defaults(c []item) map[string][]dflt {
	out := map[string][]dflt{}
	for _, x := range c {
		props, ok := x.node["properties"].(map[string]any)
		if !ok {
			continue
		}
		for _, k := range sortedKeys(props) {
			target, refs, ok := m.deref(props[k])
			if !ok {
				continue
			}
			d, has := target["default"]
			if !has || d == nil {
				continue
			}
			if refs > 0 && !x.expanded && m.Dev.PropertyRefDefaultIgnored {
				continue
			}
			via := x.via
			if refs > 0 {
				via |= ViaRef
			}
			out[k] = append(out[k], dflt{value: d, via: via, ref: refs > 0})
		}
	}
	return out
}

// Accept tells whether post is an acceptable post-state for pre (a valid
// instance of the root schema); it returns the facts of the accepted
// derivation, or nil. Check Overflow and Err when nil is returned.
func (m *Model) Accept(mode Mode, pre, post any) *Facts {
	return m.accept(mode, []sref{{schema: m.Root}}, pre, post, 0, false)
}

func (m *Model) step() bool {
	m.steps++
	if m.steps > m.MaxSteps {
		m.Overflow = true
	}
	return !m.Overflow && m.Err == nil
}

func (m *Model) accept(mode Mode, start []sref, pre, post any, depth int, inArr bool) *Facts {
	if !m.step() {
		return nil
	}
	switch p := pre.(type) {
	case map[string]any:
		q, ok := post.(map[string]any)
		if !ok {
			return nil
		}
		cls := m.closures(start, pre)
		for _, c := range cls {
			if f := m.acceptObject(mode, c, p, q, depth, inArr); f != nil {
				if len(cls) > 1 {
					f.Ambiguous++
				}
				return f
			}
			if m.Overflow || m.Err != nil {
				return nil
			}
		}
		return nil
	case []any:
		q, ok := post.([]any)
		if !ok || len(q) != len(p) {
			return nil
		}
		cls := m.closures(start, pre)
	nextClosure:
		for _, c := range cls {
			f := &Facts{}
			for i := range p {
				g := m.accept(mode, m.elemStart(c, i), p[i], q[i], depth, true)
				if g == nil {
					if m.Overflow || m.Err != nil {
						return nil
					}
					continue nextClosure
				}
				f.merge(g)
			}
			if len(cls) > 1 {
				f.Ambiguous++
			}
			return f
		}
		return nil
	default:
		if refmodel.Equal(pre, post) {
			return &Facts{}
		}
		return nil
	}
}

func (m *Model) acceptObject(mode Mode, c []item, p, q map[string]any, depth int, inArr bool) *Facts {
	f := &Facts{Objects: 1, MaxDepth: depth}
	for k := range q {
		if _, was := p[k]; !was && mode == Prune {
			return nil // pruning never adds a member
		}
	}
	var defs map[string][]dflt
	if mode == Defaults {
		defs = m.defaults(c)
	}
	for _, k := range sortedKeys(p) {
		start, described := m.childStart(c, k)
		qv, still := q[k]
		if mode == Prune && !described {
			if still {
				return nil // an undescribed member must be removed
			}
			f.Removals = append(f.Removals, Removal{Depth: depth + 1, InArray: inArr})
			continue
		}
		if !still {
			return nil // a present (C18) / described (C19) member must remain
		}
		g := m.accept(mode, start, p[k], qv, depth+1, inArr)
		if g == nil {
			return nil
		}
		f.merge(g)
		f.Kept++
		if depth+1 >= 2 || inArr {
			f.KeptDeep++
		}
	}
	if mode != Defaults {
		return f
	}
	// members that appeared must hold one of the applicable defaults
	for _, k := range sortedKeys(q) {
		if _, was := p[k]; was {
			continue
		}
		var hit *dflt
		for i := range defs[k] {
			if refmodel.Equal(defs[k][i].value, q[k]) {
				hit = &defs[k][i]
				break
			}
		}
		if hit == nil {
			return nil
		}
		distinct := map[string]bool{}
		for _, d := range defs[k] {
			distinct[refmodel.Canon(d.value)] = true
		}
		f.Fills = append(f.Fills, Fill{Depth: depth + 1, Via: hit.via, Choices: len(distinct)})
		if hit.ref {
			f.RefDefaults++
		}
		if len(distinct) > 1 {
			f.MultiDefault++
		}
	}
	// absent members with an applicable default must have appeared
	for k, ds := range defs {
		if _, was := p[k]; was || len(ds) == 0 {
			continue
		}
		if _, now := q[k]; !now {
			return nil
		}
	}
	return f
}

// Expected computes one acceptable post-state (the one obtained from the
// first closure everywhere and the first applicable default), for messages.
func (m *Model) Expected(mode Mode, pre any) any {
	return m.expected(mode, []sref{{schema: m.Root}}, pre)
}

func (m *Model) expected(mode Mode, start []sref, pre any) any {
	if !m.step() {
		return pre
	}
	switch p := pre.(type) {
	case map[string]any:
		cls := m.closures(start, pre)
		if len(cls) == 0 {
			return pre
		}
		c := cls[0]
		out := map[string]any{}
		for _, k := range sortedKeys(p) {
			st, described := m.childStart(c, k)
			if mode == Prune && !described {
				continue
			}
			out[k] = m.expected(mode, st, p[k])
		}
		if mode == Defaults {
			defs := m.defaults(c)
			for k, ds := range defs {
				if _, was := p[k]; !was && len(ds) > 0 {
					out[k] = ds[0].value
				}
			}
		}
		return out
	case []any:
		cls := m.closures(start, pre)
		if len(cls) == 0 {
			return pre
		}
		out := make([]any, len(p))
		for i := range p {
			out[i] = m.expected(mode, m.elemStart(cls[0], i), p[i])
		}
		return out
	}
	return pre
}

// HasKeyword tells whether some object of a decoded schema document has the given key.
func HasKeyword(v any, kws ...string) bool {
	switch x := v.(type) {
	case map[string]any:
		for _, kw := range kws {
			if _, ok := x[kw]; ok {
				return true
			}
		}
		for _, w := range x {
			if HasKeyword(w, kws...) {
				return true
			}
		}
	case []any:
		for _, w := range x {
			if HasKeyword(w, kws...) {
				return true
			}
		}
	}
	return false
}
