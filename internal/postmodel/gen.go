package postmodel

import (
	"encoding/json"
	"strconv"

	"pgregory.net/rapid"
)

// GenOpts tunes the constructive generator of (schema, instance) pairs.
type GenOpts struct {
	// Defaults attaches non-null defaults to property schemas (and to
	// definitions) and leaves most of the members that have one absent.
	Defaults bool
	// Extras adds members that no schema describes to the objects of the
	// instance wherever additionalProperties permits.
	Extras bool
	// ArrayRoot lets the root value be an array (C19).
	ArrayRoot bool
	// MaxDepth bounds the nesting of objects/arrays (default 3).
	MaxDepth int
}

// The generator draws a schema as a tree of annotated nodes and then an
// instance that satisfies it by construction (best effort: name collisions
// between parts of one object may break validity; the checks re-validate with
// the reference evaluator and count the rest as excluded). Every random
// choice is a rapid draw.

type kind int

const (
	kScalar kind = iota
	kObject
	kArray
	kRef
	kWrap
)

type snode struct {
	kind kind
	// scalar: schema keywords and values that satisfy them
	schema map[string]any
	vals   []any
	// object (one "part": the node's own keywords)
	typed    bool
	props    []*sprop
	pats     []*spat
	addl     int // 0 absent, 1 true, 2 false, 3 schema
	addlNode *snode
	allOf    []*snode
	anyOf    []*snode
	oneOf    []*snode
	extraReq []string // required names of members no schema describes
	// notClause adds a "not" that every object satisfies (it describes nothing and contributes no default,
	// but its validator is built and run next to the others)
	notClause int // 0 absent, 1 {"type":"string"}, 2 {"required":["zzNeverThere"]}
	// array
	items         *snode
	tuple         []*snode
	addlItems     int // 0 absent, 1 true, 2 false, 3 schema
	addlItemsNode *snode
	// ref
	def int
	// wrap: {kw: alts}; the instance is drawn from alts[main]
	wrapKw string
	alts   []*snode
	main   int
	// default (rendered next to the node's keywords)
	hasDefault bool
	dflt       any
}

type sprop struct {
	name     string
	node     *snode
	required bool
}

type spat struct {
	pattern string
	names   []string
	node    *snode
}

type cgen struct {
	t     *rapid.T
	o     GenOpts
	defs  []*snode
	nodes int
	uniq  int
}

func num(i int) json.Number { return json.Number(strconv.Itoa(i)) }

// rapid's integer generators favour small values and the bounds of wide
// ranges; IntRange(0, 3) is close to uniform, so probabilities are composed
// from base-4 digits.
func (g *cgen) u(label string, digits int) int {
	v := 0
	for i := 0; i < digits; i++ {
		v = v*4 + rapid.IntRange(0, 3).Draw(g.t, label)
	}
	return v
}

// chance is true with probability about pct/100 (and shrinks towards false).
func (g *cgen) chance(label string, pct int) bool {
	return g.u(label, 3) >= 64-pct*64/100
}

// pick draws an index below n, close to uniformly.
func (g *cgen) pick(label string, n int) int {
	if n <= 1 {
		return 0
	}
	if n <= 4 {
		return rapid.IntRange(0, n-1).Draw(g.t, label)
	}
	return g.u(label, 4) % n
}

// weighted draws an index with the given relative weights.
func (g *cgen) weighted(label string, w ...int) int {
	total := 0
	for _, x := range w {
		total += x
	}
	v := g.u(label, 4) * total / 256
	for i, x := range w {
		if v < x {
			return i
		}
		v -= x
	}
	return len(w) - 1
}

// Gen draws a schema document and an instance intended to be valid for it.
func Gen(t *rapid.T, o GenOpts) (schema map[string]any, inst any) {
	if o.MaxDepth <= 0 {
		o.MaxDepth = 3
	}
	g := &cgen{t: t, o: o}
	if g.chance("withdefs", 55) {
		n := 1 + g.pick("ndefs", 3)
		for i := 0; i < n; i++ {
			prefix := "d" + strconv.Itoa(i)
			depth := o.MaxDepth - 1 - g.pick("defdepth", 2)
			if depth < 1 {
				depth = 1
			}
			var d *snode
			switch g.weighted("defkind", 60, 25, 15) {
			case 0:
				d = g.object(depth, prefix, 1, nil)
			case 1:
				d = g.scalar()
			default:
				d = g.array(depth, prefix)
			}
			if o.Defaults {
				pct := 30
				if d.kind == kScalar {
					pct = 70
				}
				if g.chance("defdefault", pct) {
					d.hasDefault, d.dflt = true, g.defaultValue(d)
				}
			}
			g.defs = append(g.defs, d)
		}
	}
	var root *snode
	if o.ArrayRoot && g.chance("arrayroot", 15) {
		root = g.array(0, "")
	} else {
		root = g.object(0, "", 0, nil)
	}
	if o.Defaults && g.chance("rootdefault", 10) {
		root.hasDefault, root.dflt = true, g.defaultValue(root)
	}
	schema = g.render(root)
	if len(g.defs) > 0 {
		defs := map[string]any{}
		for i, d := range g.defs {
			defs["D"+strconv.Itoa(i)] = g.render(d)
		}
		schema["definitions"] = defs
	}
	inst = g.value(root, 0)
	return schema, inst
}

var scalarPool = []struct {
	schema map[string]any
	vals   []any
}{
	{map[string]any{"type": "integer"}, []any{num(0), num(1), num(7), num(-3), num(100)}},
	{map[string]any{"type": "string"}, []any{"", "a", "xyz", "é"}},
	{map[string]any{"type": "boolean"}, []any{true, false}},
	{map[string]any{}, []any{num(1), "s", true, json.Number("2.5"), false, ""}},
	{map[string]any{"type": "number", "minimum": num(0)}, []any{num(0), json.Number("0.5"), num(12)}},
	{map[string]any{"enum": []any{num(1), "a", true}}, []any{num(1), "a", true}},
	{map[string]any{"type": []any{"string", "null"}}, []any{"a", nil, ""}},
	{map[string]any{"type": "string", "minLength": num(1)}, []any{"a", "xyz"}},
}

func (g *cgen) scalar() *snode {
	s := scalarPool[g.pick("scalarkind", len(scalarPool))]
	return &snode{kind: kScalar, schema: s.schema, vals: s.vals}
}

var defaultPool = []any{
	num(0), false, "", num(42), "dflt", true, json.Number("1.5"), map[string]any{}, []any{},
	map[string]any{"d": num(1)}, []any{"d", num(2)}, map[string]any{"a": map[string]any{"b": num(1)}}, num(-7), "0",
}

// defaultValue draws a non-null default; half of the time one that fits the node.
func (g *cgen) defaultValue(n *snode) any {
	if g.chance("fitdefault", 50) {
		switch n.kind {
		case kScalar:
			if v := n.vals[g.pick("defaultval", len(n.vals))]; v != nil {
				return v
			}
		case kObject:
			return map[string]any{}
		case kArray:
			return []any{}
		}
	}
	return defaultPool[g.pick("default", len(defaultPool))]
}

var propNames = []string{"a", "b", "c", "d", "e", "f", "pa", "rs", "aq"}

func (g *cgen) name(prefix string) string {
	if g.chance("patname", 8) {
		return prefix + propNames[6+g.pick("patnameidx", 3)]
	}
	return prefix + propNames[g.pick("name", 6)]
}

var patternPool = []struct {
	pattern string
	names   []string
}{
	{"^p", []string{"p1", "pa", "pq"}},
	{"q$", []string{"aq", "q", "pq"}},
	{"^[r-s]+$", []string{"r", "rs", "ssr"}},
	{".", []string{"m", "w", "n"}},
	{"^y", []string{"y1", "yy", "y"}},
}

// node draws a schema node below an object or array at the given depth.
func (g *cgen) node(depth int, prefix string) *snode {
	g.nodes++
	if depth >= g.o.MaxDepth || g.nodes > 36 {
		return g.scalar()
	}
	switch g.weighted("nodekind", 30, 38, 16, 16) {
	case 0:
		return g.scalar()
	case 1:
		return g.object(depth, prefix, 0, nil)
	case 2:
		return g.array(depth, prefix)
	default:
		if len(g.defs) > 0 {
			return &snode{kind: kRef, def: g.pick("refidx", len(g.defs))}
		}
		return g.object(depth, prefix, 0, nil)
	}
}

func (g *cgen) isObject(n *snode) bool {
	for n.kind == kRef {
		n = g.defs[n.def]
	}
	return n.kind == kObject
}

// structured tells whether the instances of n are objects or arrays.
func (g *cgen) structured(n *snode) bool {
	for n.kind == kRef {
		n = g.defs[n.def]
	}
	return n.kind != kScalar
}

func (g *cgen) closedNode(n *snode) bool {
	for n.kind == kRef {
		n = g.defs[n.def]
	}
	return n.kind == kObject && (n.addl == 2 || (n.addl == 3 && len(n.addlNode.schema) > 0) || (n.addl == 3 && n.addlNode.kind != kScalar))
}

// object draws an object node. member is the nesting level of composition
// parts (0: not a part of a composition).
func (g *cgen) object(depth int, prefix string, member int, used map[string]*snode) *snode {
	n := &snode{kind: kObject, typed: g.chance("typed", 50)}
	if g.chance("notclause", 15) {
		n.notClause = 1 + g.pick("notkind", 2)
	}
	if used == nil {
		used = map[string]*snode{}
	}
	seen := map[string]bool{}
	np := g.pick("nprops", 4)
	if member == 0 && np == 0 && g.chance("moreprops", 70) {
		np = 2
	}
	for i := 0; i < np; i++ {
		nm := g.name(prefix)
		if seen[nm] {
			continue
		}
		seen[nm] = true
		var child *snode
		if prev, clash := used[nm]; clash {
			// the name is declared by another part of the same object: only
			// scalars of the same kind can share it (possibly with another default)
			if prev.kind != kScalar || !g.chance("sharename", 50) {
				continue
			}
			child = &snode{kind: kScalar, schema: prev.schema, vals: prev.vals}
		} else {
			child = g.node(depth+1, prefix)
			used[nm] = child
		}
		if g.o.Defaults && child.kind != kRef && g.chance("default", 55) {
			child.hasDefault, child.dflt = true, g.defaultValue(child)
		}
		p := &sprop{name: nm, node: child}
		if !g.hasDefault(child) && g.chance("required", 25) {
			p.required = true
		}
		n.props = append(n.props, p)
	}
	if g.chance("patterns", 22) {
		k := 1 + g.pick("npats", 2)
		for i := 0; i < k; i++ {
			pp := patternPool[g.pick("pattern", len(patternPool))]
			dup := false
			for _, q := range n.pats {
				dup = dup || q.pattern == pp.pattern
			}
			if dup {
				continue
			}
			pn := g.node(depth+1, prefix)
			if pp.pattern == "." {
				// matches every member: keep it satisfiable by whatever the other keywords ask for
				if pn.kind == kObject {
					pn.typed = false
					for _, q := range pn.props {
						q.required = false
					}
				} else {
					pn = &snode{kind: kScalar, schema: map[string]any{}, vals: []any{num(1), "s", true}}
				}
			}
			n.pats = append(n.pats, &spat{pattern: pp.pattern, names: pp.names, node: pn})
		}
	}
	composed := false
	if member < 2 && g.nodes < 30 {
		pct := 45
		if member > 0 {
			pct = 20
		}
		if g.chance("compose", pct) {
			composed = true
			g.compose(n, depth, prefix, member, used)
			if g.chance("compose2", 20) {
				g.compose(n, depth, prefix, member, used)
			}
		}
	}
	anyNode := &snode{kind: kScalar, schema: map[string]any{}, vals: []any{num(1), "s", true}}
	if member > 0 || composed {
		switch g.weighted("addlmember", 70, 15, 15) {
		case 0:
		case 1:
			n.addl = 1
		default:
			n.addl, n.addlNode = 3, anyNode
		}
	} else {
		switch g.weighted("addl", 40, 10, 15, 7, 28) {
		case 0:
		case 1:
			n.addl = 1
		case 2:
			n.addl = 2
		case 3:
			n.addl, n.addlNode = 3, anyNode
		default:
			n.addl, n.addlNode = 3, g.node(depth+1, prefix)
		}
	}
	if g.o.Extras && n.addl < 2 && g.chance("extrareq", 6) {
		n.extraReq = []string{"u1"}
	}
	return n
}

// compose adds one composition keyword with 1-3 object parts to n.
func (g *cgen) compose(n *snode, depth int, prefix string, member int, used map[string]*snode) {
	kw := g.pick("compkind", 3)
	if (kw == 0 && n.allOf != nil) || (kw == 1 && n.anyOf != nil) || (kw == 2 && n.oneOf != nil) {
		return
	}
	k := 1 + g.pick("nparts", 3)
	var parts []*snode
	for i := 0; i < k; i++ {
		var part *snode
		if kw != 2 && len(g.defs) > 0 && g.chance("partref", 25) {
			r := &snode{kind: kRef, def: g.pick("partrefidx", len(g.defs))}
			if g.isObject(r) && !g.closedNode(r) {
				part = r
			}
		}
		if part == nil {
			part = g.object(depth, prefix, member+1, used)
			if kw == 2 || (kw == 1 && g.chance("guard", 45)) {
				g.uniq++
				tag := &snode{kind: kScalar, schema: map[string]any{"enum": []any{num(g.uniq)}}, vals: []any{num(g.uniq)}}
				part.props = append(part.props, &sprop{name: "t" + strconv.Itoa(g.uniq), node: tag, required: true})
			}
		}
		parts = append(parts, part)
	}
	switch kw {
	case 0:
		n.allOf = parts
	case 1:
		n.anyOf = parts
	default:
		n.oneOf = parts
	}
}

func (g *cgen) array(depth int, prefix string) *snode {
	n := &snode{kind: kArray, typed: g.chance("typedarr", 50)}
	sub := func() *snode {
		if depth+1 < g.o.MaxDepth && g.chance("objitem", 60) {
			g.nodes++
			return g.object(depth+1, prefix, 0, nil)
		}
		return g.node(depth+1, prefix)
	}
	switch g.weighted("itemskind", 62, 30, 8) {
	case 0:
		n.items = sub()
	case 1:
		k := 1 + g.pick("ntuple", 2)
		for i := 0; i < k; i++ {
			n.tuple = append(n.tuple, sub())
		}
		switch g.pick("addlitems", 4) {
		case 1:
			n.addlItems = 1
		case 2:
			n.addlItems = 2
		case 3:
			n.addlItems, n.addlItemsNode = 3, sub()
		}
	}
	if !g.chance("wraparray", 25) {
		return n
	}
	w := &snode{kind: kWrap}
	str := &snode{kind: kScalar, schema: map[string]any{"type": "string"}, vals: []any{"a"}}
	obj := &snode{kind: kScalar, schema: map[string]any{"type": "object"}, vals: []any{"a"}}
	anyv := &snode{kind: kScalar, schema: map[string]any{}, vals: []any{"a"}}
	arr := &snode{kind: kScalar, schema: map[string]any{"type": "array"}, vals: []any{"a"}}
	var other *snode
	switch g.pick("wrapkind", 3) {
	case 0:
		w.wrapKw = "allOf"
		other = []*snode{nil, arr, anyv}[g.pick("wrapother", 3)]
	case 1:
		w.wrapKw = "anyOf"
		switch g.pick("wrapother", 4) {
		case 0:
			other = str
		case 1:
			other = anyv
		default:
			// a second array schema whose items are objects with optional members only
			it := &snode{kind: kObject}
			for i := 0; i < 1+g.pick("otherprops", 2); i++ {
				c := g.scalar()
				if g.o.Defaults && g.chance("otherdefault", 60) {
					c.hasDefault, c.dflt = true, g.defaultValue(c)
				}
				it.props = append(it.props, &sprop{name: prefix + []string{"g", "h", "a"}[g.pick("othername", 3)] + strconv.Itoa(i), node: c})
			}
			other = &snode{kind: kArray, items: it}
		}
	default:
		w.wrapKw = "oneOf"
		other = []*snode{str, obj}[g.pick("wrapother", 2)]
	}
	if other == nil {
		w.alts, w.main = []*snode{n}, 0
	} else if g.chance("wrapfirst", 50) {
		w.alts, w.main = []*snode{n, other}, 0
	} else {
		w.alts, w.main = []*snode{other, n}, 1
	}
	return w
}

func (g *cgen) hasDefault(n *snode) bool {
	for n.kind == kRef {
		n = g.defs[n.def]
	}
	return n.hasDefault
}

// ---- rendering

func (g *cgen) render(n *snode) map[string]any {
	out := map[string]any{}
	switch n.kind {
	case kScalar:
		for k, v := range n.schema {
			out[k] = v
		}
	case kRef:
		// sibling-free reference: a default can only sit on the target
		return map[string]any{"$ref": "#/definitions/D" + strconv.Itoa(n.def)}
	case kWrap:
		var alts []any
		for _, a := range n.alts {
			alts = append(alts, g.render(a))
		}
		out[n.wrapKw] = alts
	case kArray:
		if n.typed {
			out["type"] = "array"
		}
		if n.items != nil {
			out["items"] = g.render(n.items)
		}
		if n.tuple != nil {
			var t []any
			for _, e := range n.tuple {
				t = append(t, g.render(e))
			}
			out["items"] = t
		}
		switch n.addlItems {
		case 1:
			out["additionalItems"] = true
		case 2:
			out["additionalItems"] = false
		case 3:
			out["additionalItems"] = g.render(n.addlItemsNode)
		}
	case kObject:
		if n.typed {
			out["type"] = "object"
		}
		var req []any
		if len(n.props) > 0 {
			props := map[string]any{}
			for _, p := range n.props {
				props[p.name] = g.render(p.node)
				if p.required {
					req = append(req, p.name)
				}
			}
			out["properties"] = props
		}
		for _, r := range n.extraReq {
			req = append(req, r)
		}
		if len(req) > 0 {
			out["required"] = req
		}
		if len(n.pats) > 0 {
			pp := map[string]any{}
			for _, p := range n.pats {
				pp[p.pattern] = g.render(p.node)
			}
			out["patternProperties"] = pp
		}
		switch n.addl {
		case 1:
			out["additionalProperties"] = true
		case 2:
			out["additionalProperties"] = false
		case 3:
			out["additionalProperties"] = g.render(n.addlNode)
		}
		switch n.notClause {
		case 1:
			out["not"] = map[string]any{"type": "string"}
		case 2:
			out["not"] = map[string]any{"required": []any{"zzNeverThere"}}
		}
		for kw, parts := range map[string][]*snode{"allOf": n.allOf, "anyOf": n.anyOf, "oneOf": n.oneOf} {
			if parts == nil {
				continue
			}
			var l []any
			for _, p := range parts {
				l = append(l, g.render(p))
			}
			out[kw] = l
		}
	}
	if n.hasDefault {
		out["default"] = n.dflt
	}
	return out
}

// ---- instances

var junkPool = []any{
	num(1), "s", true, map[string]any{"u": num(1)}, map[string]any{"a": num(1), "zz": map[string]any{"q": []any{num(1)}}},
	[]any{map[string]any{"a": num(1)}}, []any{}, map[string]any{}, json.Number("2.5"),
}

func (g *cgen) junk() any {
	return cloneJSON(junkPool[g.pick("junk", len(junkPool))])
}

func cloneJSON(v any) any {
	switch x := v.(type) {
	case []any:
		out := make([]any, len(x))
		for i := range x {
			out[i] = cloneJSON(x[i])
		}
		return out
	case map[string]any:
		out := make(map[string]any, len(x))
		for k, w := range x {
			out[k] = cloneJSON(w)
		}
		return out
	}
	return v
}

func (g *cgen) value(n *snode, depth int) any {
	switch n.kind {
	case kScalar:
		return n.vals[g.pick("val", len(n.vals))]
	case kRef:
		return g.value(g.defs[n.def], depth)
	case kWrap:
		return g.value(n.alts[n.main], depth)
	case kArray:
		var out []any
		switch {
		case n.items != nil:
			k := g.pick("nitems", 4)
			for i := 0; i < k; i++ {
				out = append(out, g.value(n.items, depth+1))
			}
		case n.tuple != nil:
			k := g.pick("ntupleitems", len(n.tuple)+3)
			for i := 0; i < k; i++ {
				switch {
				case i < len(n.tuple):
					out = append(out, g.value(n.tuple[i], depth+1))
				case n.addlItems == 2:
				case n.addlItems == 3:
					out = append(out, g.value(n.addlItemsNode, depth+1))
				default:
					out = append(out, g.junk())
				}
			}
		default:
			k := g.pick("nfreeitems", 3)
			for i := 0; i < k; i++ {
				out = append(out, g.junk())
			}
		}
		if out == nil {
			out = []any{}
		}
		return out
	default:
		obj := map[string]any{}
		closed := g.fill(n, obj, depth)
		pct := 20
		if g.o.Extras {
			pct = 70
		}
		if !closed && g.chance("extras", pct) {
			k := 1 + g.pick("nextras", 2)
			for i := 0; i < k; i++ {
				nm := []string{"u1", "u2", "zz", "w"}[g.pick("extraname", 4)]
				if _, has := obj[nm]; !has {
					obj[nm] = g.junk()
				}
			}
		}
		return obj
	}
}

// fill adds to obj members that satisfy object node n; it reports whether n
// (or a part of it that was filled) forbids or describes additional members.
func (g *cgen) fill(n *snode, obj map[string]any, depth int) (closed bool) {
	for n.kind == kRef {
		n = g.defs[n.def]
	}
	if n.kind != kObject {
		return false
	}
	for _, p := range n.props {
		if _, has := obj[p.name]; has {
			continue
		}
		present := p.required
		if !present {
			pct := 65
			if g.hasDefault(p.node) {
				pct = 25
				if g.structured(p.node) {
					pct = 60
				}
			} else if g.structured(p.node) {
				pct = 85
			}
			present = g.chance("present", pct)
		}
		if present {
			obj[p.name] = g.value(p.node, depth+1)
		}
	}
	for _, p := range n.pats {
		k := g.pick("npatmembers", 3)
		for i := 0; i < k; i++ {
			nm := p.names[g.pick("patmember", len(p.names))]
			if _, has := obj[nm]; !has {
				obj[nm] = g.value(p.node, depth+1)
			}
		}
	}
	for _, r := range n.extraReq {
		if _, has := obj[r]; !has {
			obj[r] = g.junk()
		}
	}
	for _, part := range n.allOf {
		closed = g.fill(part, obj, depth) || closed
	}
	if len(n.oneOf) > 0 {
		closed = g.fill(n.oneOf[g.pick("oneofidx", len(n.oneOf))], obj, depth) || closed
	}
	if len(n.anyOf) > 0 {
		first := g.pick("anyofidx", len(n.anyOf))
		for i, part := range n.anyOf {
			if i == first || g.chance("anyofmore", 30) {
				closed = g.fill(part, obj, depth) || closed
			}
		}
	}
	switch n.addl {
	case 2:
		closed = true
	case 3:
		closed = true
		k := g.pick("naddl", 3)
		for i := 0; i < k; i++ {
			nm := []string{"x1", "x2", "u1"}[g.pick("addlname", 3)]
			if _, has := obj[nm]; !has {
				obj[nm] = g.value(n.addlNode, depth+1)
			}
		}
	}
	return closed
}
