//go:build verif

// Package hook gives the checks access to the verif-tagged hooks of the library.
package hook

import "github.com/go-openapi/validate"

// Enabled tells whether the library was built with the verif tag.
const Enabled = true

func ResetPools()                        { validate.VerifResetPools() }
func SetRedeemHook(h func(obj any) bool) { validate.VerifSetRedeemHook(h) }
func ResetRegexpCache()                  { validate.VerifResetRegexpCache() }
func RegexpCache() map[string]string     { return validate.VerifRegexpCache() }

// BorrowResult takes a Result from the library's pool, as the validators do for intermediate results.
func BorrowResult() *validate.Result { return validate.VerifBorrowResult() }
