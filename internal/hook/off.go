//go:build !verif

// Package hook gives the checks access to the verif-tagged hooks of the library.
package hook

import "github.com/go-openapi/validate"

// Enabled tells whether the library was built with the verif tag.
const Enabled = false

func ResetPools()                        {}
func SetRedeemHook(h func(obj any) bool) {}
func ResetRegexpCache()                  {}
func RegexpCache() map[string]string     { return nil }

// BorrowResult: without the hooks, a plain new Result.
func BorrowResult() *validate.Result { return new(validate.Result) }
