// Package reg provides a small deterministic strfmt.Registry: a few custom
// checkers plus a handful of formats delegated to strfmt.Default. The same
// object is handed to the library and (through Func) to the reference model.
package reg

import (
	"errors"
	"reflect"
	"strings"
	"unicode/utf8"

	"github.com/go-openapi/strfmt"
	"github.com/mitchellh/mapstructure"
)

// Reg implements strfmt.Registry.
type Reg struct {
	custom    map[string]func(string) bool
	delegated map[string]bool
	// Hook, when set, is called at every Validates call (C11 fault injection).
	Hook func(name, data string)
}

// Names lists the format names the registry knows; Unknown lists names it does not.
var Names = []string{"evenlen", "starts-a", "never", "always", "upper-case", "date", "uuid", "email", "date-time"}
var Unknown = []string{"nope", "int-ish", "Date"}

// New builds the registry.
func New() *Reg {
	return &Reg{
		custom: map[string]func(string) bool{
			"evenlen":    func(s string) bool { return utf8.RuneCountInString(s)%2 == 0 },
			"starts-a":   func(s string) bool { return strings.HasPrefix(s, "a") },
			"never":      func(string) bool { return false },
			"always":     func(string) bool { return true },
			"upper-case": func(s string) bool { return s == strings.ToUpper(s) },
		},
		delegated: map[string]bool{"date": true, "uuid": true, "email": true, "date-time": true},
	}
}

func (r *Reg) Add(string, strfmt.Format, strfmt.Validator) bool { return false }
func (r *Reg) DelByName(string) bool                            { return false }
func (r *Reg) GetType(string) (reflect.Type, bool)              { return nil, false }
func (r *Reg) ContainsName(name string) bool {
	if _, ok := r.custom[name]; ok {
		return true
	}
	return r.delegated[name]
}
func (r *Reg) Validates(name, data string) bool {
	if r.Hook != nil {
		r.Hook(name, data)
	}
	if f, ok := r.custom[name]; ok {
		return f(data)
	}
	if r.delegated[name] {
		return strfmt.Default.Validates(name, data)
	}
	return false
}
func (r *Reg) Parse(string, string) (interface{}, error) { return nil, errors.New("not supported") }
func (r *Reg) MapStructureHookFunc() mapstructure.DecodeHookFunc {
	return func(_ reflect.Type, _ reflect.Type, d interface{}) (interface{}, error) { return d, nil }
}

// Func adapts a registry for the reference model (nil registry: nothing is known).
func Func(r strfmt.Registry) func(name, s string) (known, ok bool) {
	if r == nil || (reflect.ValueOf(r).Kind() == reflect.Ptr && reflect.ValueOf(r).IsNil()) {
		return nil
	}
	return func(name, s string) (bool, bool) {
		if !r.ContainsName(name) {
			return false, false
		}
		return true, r.Validates(name, s)
	}
}
