// Package obs calls the library under test and normalises what it returns:
// verdict, sorted sets of messages, captured panics.
package obs

import (
	"bytes"
	"encoding/json"
	"fmt"
	"runtime/debug"
	"sort"
	"strings"

	oaerrors "github.com/go-openapi/errors"
	"github.com/go-openapi/spec"
	"github.com/go-openapi/strfmt"
	"github.com/go-openapi/validate"
)

// Outcome is the observable result of one validation.
type Outcome struct {
	Valid    bool     `json:"valid"`
	Errors   []string `json:"errors,omitempty"`   // sorted, distinct
	Warnings []string `json:"warnings,omitempty"` // sorted, distinct
	Panic    string   `json:"panic,omitempty"`
	Stack    string   `json:"-"`
	NilRes   bool     `json:"nil_result,omitempty"`
}

// Same compares verdict and message sets.
func (o Outcome) Same(p Outcome) bool {
	return o.Valid == p.Valid && o.Panic == p.Panic && eq(o.Errors, p.Errors) && eq(o.Warnings, p.Warnings) && o.NilRes == p.NilRes
}

func (o Outcome) String() string {
	if o.Panic != "" {
		return "panic: " + o.Panic
	}
	return fmt.Sprintf("valid=%v errors=%q warnings=%q", o.Valid, o.Errors, o.Warnings)
}

func eq(a, b []string) bool {
	if len(a) != len(b) {
		return false
	}
	for i := range a {
		if a[i] != b[i] {
			return false
		}
	}
	return true
}

// Set renders a list of errors as a sorted list of distinct messages.
func Set(es []error) []string {
	seen := map[string]bool{}
	var out []string
	for _, e := range es {
		m := "<nil>"
		if e != nil {
			m = e.Error()
		}
		if !seen[m] {
			seen[m] = true
			out = append(out, m)
		}
	}
	sort.Strings(out)
	return out
}

// ParseSchema unmarshals schema text into a fresh spec.Schema.
func ParseSchema(text string) (*spec.Schema, error) {
	s := new(spec.Schema)
	if err := json.Unmarshal([]byte(text), s); err != nil {
		return nil, err
	}
	return s, nil
}

// DecodeStd decodes JSON the way callers of the library normally do (float64 numbers).
func DecodeStd(text string) (any, error) {
	var v any
	err := json.Unmarshal([]byte(text), &v)
	return v, err
}

// DecodeNumber decodes JSON with numbers carried as json.Number.
func DecodeNumber(text string) (any, error) {
	d := json.NewDecoder(bytes.NewReader([]byte(text)))
	d.UseNumber()
	var v any
	err := d.Decode(&v)
	return v, err
}

// Guard runs f, capturing a panic.
func Guard(f func()) (msg, stack string) {
	defer func() {
		if r := recover(); r != nil {
			msg = fmt.Sprint(r)
			if msg == "" {
				msg = "(empty panic value)"
			}
			stack = string(debug.Stack())
		}
	}()
	f()
	return
}

// FromResult normalises a *validate.Result.
func FromResult(r *validate.Result) Outcome {
	if r == nil {
		return Outcome{Valid: true, NilRes: true}
	}
	return Outcome{Valid: r.IsValid(), Errors: Set(r.Errors), Warnings: Set(r.Warnings)}
}

// FromError normalises the error returned by AgainstSchema / Spec.
func FromError(err error) Outcome {
	if err == nil {
		return Outcome{Valid: true}
	}
	if ce, ok := err.(*oaerrors.CompositeError); ok {
		return Outcome{Valid: false, Errors: Set(ce.Errors)}
	}
	return Outcome{Valid: false, Errors: []string{err.Error()}}
}

// Against runs validate.AgainstSchema on a freshly parsed schema.
func Against(schemaText string, data any, formats strfmt.Registry, opts ...validate.Option) Outcome {
	sch, err := ParseSchema(schemaText)
	if err != nil {
		return Outcome{Panic: "harness: schema does not parse: " + err.Error()}
	}
	var out Outcome
	msg, stack := Guard(func() { out = FromError(validate.AgainstSchema(sch, data, formats, opts...)) })
	if msg != "" {
		return Outcome{Panic: msg, Stack: stack}
	}
	return out
}

// ViaValidator builds a validator object on a freshly parsed schema and validates once.
func ViaValidator(schemaText string, data any, root string, formats strfmt.Registry, opts ...validate.Option) Outcome {
	sch, err := ParseSchema(schemaText)
	if err != nil {
		return Outcome{Panic: "harness: schema does not parse: " + err.Error()}
	}
	var out Outcome
	msg, stack := Guard(func() {
		out = FromResult(validate.NewSchemaValidator(sch, nil, root, formats, opts...).Validate(data))
	})
	if msg != "" {
		return Outcome{Panic: msg, Stack: stack}
	}
	return out
}

// ShortStack trims a stack trace to the frames inside the library.
func ShortStack(stack string) string {
	var keep []string
	lines := strings.Split(stack, "\n")
	for i := 0; i+1 < len(lines); i++ {
		if strings.Contains(lines[i], "go-openapi/validate") && !strings.Contains(lines[i], "verif/") {
			keep = append(keep, strings.TrimSpace(lines[i]), strings.TrimSpace(lines[i+1]))
			if len(keep) >= 12 {
				break
			}
		}
	}
	return strings.Join(keep, " | ")
}
