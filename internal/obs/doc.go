package obs

import (
	"encoding/json"

	"github.com/go-openapi/loads"
	"github.com/go-openapi/strfmt"
	"github.com/go-openapi/validate"
)

// LoadDoc loads a specification from JSON or YAML bytes (each document gets its own parsed Swagger schema).
func LoadDoc(text []byte) (doc *loads.Document, err error, panicked string) {
	panicked, _ = Guard(func() { doc, err = loads.Analyzed(json.RawMessage(text), "") })
	return
}

// SpecOutcome is the pair of results of a specification validation.
type SpecOutcome struct {
	Outcome
	// WarningsResult is the normalised second result (its Errors hold the warnings).
	WarningsResultErrors []string `json:"warnings_result_errors,omitempty"`
	NilResults           bool     `json:"nil_results,omitempty"`
}

// ValidateSpec runs a SpecValidator on a loaded document with explicit options.
func ValidateSpec(doc *loads.Document, formats strfmt.Registry, continueOnErrors bool, tweak func(*validate.SpecValidator)) SpecOutcome {
	var out SpecOutcome
	msg, stack := Guard(func() {
		v := validate.NewSpecValidator(doc.Schema(), formats)
		v.SetContinueOnErrors(continueOnErrors)
		if tweak != nil {
			tweak(v)
		}
		errs, warns := v.Validate(doc)
		if errs == nil || warns == nil {
			out.NilResults = true
			return
		}
		out.Outcome = FromResult(errs)
		out.WarningsResultErrors = Set(warns.Errors)
	})
	if msg != "" {
		out.Panic, out.Stack = msg, stack
	}
	return out
}
