package gen

import (
	"encoding/json"
	"fmt"
	"strconv"

	"pgregory.net/rapid"
)

// SchemaOpts tunes the schema grammar.
type SchemaOpts struct {
	MaxDepth int
	// Formats are the string format names that may be used next to type string
	// (known and unknown to the registry alike).
	Formats []string
	// Degenerate lifts the draft-4 meta-schema restrictions (C06): empty lists,
	// negative sizes, multipleOf <= 0, uncompilable patterns, unknown types.
	Degenerate bool
	// NoRef disables definitions/$ref.
	NoRef bool
	// BadPatterns lets pattern / patternProperties hold expressions that Go's regexp rejects (without the other degenerate features).
	BadPatterns bool
	// Defaults adds "default" values to object properties (C18).
	Defaults bool
	// ObjectBias makes object/array structure much more likely (C17-C19).
	ObjectBias bool
	// NoNot / NoDeps remove "not" and "dependencies" (C18/C19 domain).
	NoNot, NoDeps bool
	// NoEnumObject keeps enum values scalar.
	ScalarEnum bool
	// TupleOnly makes "items" always a tuple (C17 location claim).
	TupleOnly bool
}

type schemaGen struct {
	t     *rapid.T
	o     SchemaOpts
	ndefs int
	nodes int
}

// Schema draws a schema document: a root schema, possibly with "definitions"
// that sibling-free local $refs point into (acyclic by construction).
func Schema(t *rapid.T, o SchemaOpts) map[string]any {
	g := &schemaGen{t: t, o: o}
	if o.MaxDepth <= 0 {
		g.o.MaxDepth = 3
	}
	defs := map[string]any{}
	if !o.NoRef && rapid.IntRange(0, 3).Draw(t, "withdefs") == 0 {
		n := rapid.IntRange(1, 3).Draw(t, "ndefs")
		for i := 0; i < n; i++ {
			// definition i may only reference definitions < i
			d := g.node(g.o.MaxDepth-1, true)
			if _, isRef := d["$ref"]; g.o.Defaults && !isRef && g.coin("defdefault", 2) {
				// a default on the definition itself: what a property that is a bare $ref to it inherits
				d["default"] = g.defaultValue()
			}
			defs["D"+strconv.Itoa(i)] = d
			g.ndefs = i + 1
		}
	}
	root := g.node(g.o.MaxDepth, false)
	if _, isRef := root["$ref"]; isRef && len(defs) > 0 && g.coin("wraprootref", 2) {
		// half of the time the root reference is wrapped; otherwise the root is the bare reference, with the
		// definitions it points into as its only sibling (the usual way of writing a schema whose root is a definition)
		root = map[string]any{"allOf": []any{root}}
	}
	if len(defs) > 0 {
		root["definitions"] = defs
	}
	return root
}

var groups = []string{"type", "enum", "numeric", "string", "format", "array", "object", "composition", "deps", "not", "ref"}

func (g *schemaGen) pick(label string, n int) int { return rapid.IntRange(0, n-1).Draw(g.t, label) }
func (g *schemaGen) coin(label string, oneIn int) bool {
	return rapid.IntRange(0, oneIn-1).Draw(g.t, label) == 0
}

var jsonTypes = []string{"null", "boolean", "integer", "number", "string", "array", "object"}

func (g *schemaGen) typeKw() any {
	if g.o.Degenerate && g.coin("degtype", 6) {
		switch g.pick("degtypekind", 3) {
		case 0:
			return []any{}
		case 1:
			return "file"
		default:
			return rapid.SampledFrom([]string{"any", "Integer", "", "float"}).Draw(g.t, "unknowntype")
		}
	}
	if g.coin("typelist", 4) {
		n := rapid.IntRange(1, 3).Draw(g.t, "ntypes")
		seen := map[string]bool{}
		var out []any
		for i := 0; i < n; i++ {
			ty := rapid.SampledFrom(jsonTypes).Draw(g.t, "type")
			if !seen[ty] {
				seen[ty] = true
				out = append(out, ty)
			}
		}
		return out
	}
	return rapid.SampledFrom(jsonTypes).Draw(g.t, "type")
}

func (g *schemaGen) size(label string) any {
	if g.o.Degenerate && g.coin("degsize", 5) {
		return json.Number(rapid.SampledFrom([]string{"-1", "-5", "9223372036854775807", "4294967296", "0"}).Draw(g.t, "degsizeval"))
	}
	return json.Number(strconv.Itoa(rapid.IntRange(0, 4).Draw(g.t, label)))
}

func (g *schemaGen) pattern() string {
	if (g.o.Degenerate || g.o.BadPatterns) && g.coin("badpat", 4) {
		return rapid.SampledFrom([]string{"(", "[a-", "*a", `\p{Nope}`, "a{2,1}", "(?P<n>", `^(?!x)`}).Draw(g.t, "badpattern")
	}
	return rapid.SampledFrom(Patterns).Draw(g.t, "pattern")
}

func (g *schemaGen) enumValues() []any {
	if g.o.Degenerate && g.coin("emptyenum", 5) {
		return []any{}
	}
	n := rapid.IntRange(1, 4).Draw(g.t, "nenum")
	var out []any
	seen := map[string]bool{}
	for i := 0; i < n; i++ {
		var v any
		if g.o.ScalarEnum || !g.coin("enumcomplex", 5) {
			v = Scalar(g.t)
		} else {
			v = Value(g.t, 5)
		}
		key := canonKey(v)
		if seen[key] {
			continue
		}
		seen[key] = true
		out = append(out, v)
	}
	return out
}

// canonKey is a cheap canonical text used to keep enum values distinct by JSON
// value (numbers compared through big rationals would be overkill here: the
// literals of this generator have a unique spelling per value except for
// exponent forms, which are normalised through float formatting).
func canonKey(v any) string {
	switch x := v.(type) {
	case json.Number:
		f, err := x.Float64()
		if err == nil {
			return "n" + strconv.FormatFloat(f, 'g', -1, 64)
		}
		return "n" + string(x)
	case []any:
		s := "["
		for _, e := range x {
			s += canonKey(e) + ","
		}
		return s + "]"
	case map[string]any:
		s := "{"
		for _, k := range SortedKeys(x) {
			s += strconv.Quote(k) + ":" + canonKey(x[k]) + ","
		}
		return s + "}"
	default:
		return fmt.Sprintf("%T%v", v, v)
	}
}

func (g *schemaGen) names(label string, minN, maxN int) []any {
	n := rapid.IntRange(minN, maxN).Draw(g.t, label)
	seen := map[string]bool{}
	var out []any
	for i := 0; i < n; i++ {
		nm := Name(g.t)
		if seen[nm] {
			continue
		}
		seen[nm] = true
		out = append(out, nm)
	}
	if len(out) == 0 && minN > 0 {
		out = append(out, "a")
	}
	if out == nil {
		out = []any{}
	}
	return out
}

func (g *schemaGen) sub(depth int) map[string]any { return g.node(depth-1, false) }

func (g *schemaGen) subs(label string, depth, minN, maxN int) []any {
	n := rapid.IntRange(minN, maxN).Draw(g.t, label)
	out := make([]any, 0, n)
	for i := 0; i < n; i++ {
		out = append(out, g.sub(depth))
	}
	return out
}

// node draws one schema object.
func (g *schemaGen) node(depth int, inDefs bool) map[string]any {
	g.nodes++
	s := map[string]any{}
	t := g.t
	if depth <= 0 || g.nodes > 40 {
		// leaf: a type, an enum or one simple constraint
		switch g.pick("leafkind", 6) {
		case 0:
			// the empty schema
		case 1:
			s["enum"] = g.enumValues()
		case 2:
			g.numeric(s)
		case 3:
			g.stringKw(s)
		default:
			s["type"] = g.typeKw()
		}
		return s
	}
	// sibling-free $ref
	if !g.o.NoRef && g.ndefs > 0 && g.coin("useref", 7) {
		return map[string]any{"$ref": "#/definitions/D" + strconv.Itoa(g.pick("refidx", g.ndefs))}
	}
	k := rapid.IntRange(1, 3).Draw(t, "ngroups")
	if g.coin("moregroups", 6) {
		k += 2
	}
	for i := 0; i < k; i++ {
		var grp string
		if g.o.ObjectBias && g.coin("objbias", 2) {
			grp = rapid.SampledFrom([]string{"object", "object", "array", "composition"}).Draw(t, "group")
		} else {
			grp = rapid.SampledFrom(groups).Draw(t, "group")
		}
		switch grp {
		case "type":
			if _, has := s["format"]; !has {
				s["type"] = g.typeKw()
			}
		case "enum":
			s["enum"] = g.enumValues()
		case "numeric":
			g.numeric(s)
		case "string":
			g.stringKw(s)
		case "format":
			g.format(s)
		case "array":
			g.array(s, depth)
		case "object":
			g.object(s, depth)
		case "composition":
			switch g.pick("compkind", 3) {
			case 0:
				s["allOf"] = g.subs("nallof", depth, 1, 3)
			case 1:
				s["anyOf"] = g.subs("nanyof", depth, 1, 3)
			default:
				s["oneOf"] = g.subs("noneof", depth, 1, 3)
			}
			if g.o.Degenerate && g.coin("emptycomp", 8) {
				s[rapid.SampledFrom([]string{"allOf", "anyOf", "oneOf"}).Draw(t, "emptycompkw")] = []any{}
			}
		case "deps":
			if g.o.NoDeps {
				continue
			}
			deps := map[string]any{}
			n := rapid.IntRange(1, 2).Draw(t, "ndeps")
			for j := 0; j < n; j++ {
				if g.coin("depschema", 2) {
					deps[Name(t)] = g.sub(depth)
				} else {
					minN := 1
					if g.o.Degenerate {
						minN = 0
					}
					deps[Name(t)] = g.names("ndepnames", minN, 2)
				}
			}
			s["dependencies"] = deps
		case "not":
			if g.o.NoNot {
				continue
			}
			s["not"] = g.sub(depth)
		case "ref":
			// handled above (a $ref never has siblings)
		}
	}
	return s
}

func (g *schemaGen) numeric(s map[string]any) {
	t := g.t
	if g.coin("multipleOf", 2) {
		if g.o.Degenerate && g.coin("badmultiple", 3) {
			s["multipleOf"] = json.Number(rapid.SampledFrom([]string{"0", "-1", "-0.5", "1e-320", "1e308"}).Draw(t, "badmult"))
		} else {
			s["multipleOf"] = PosNum(t)
		}
	}
	if g.coin("maximum", 2) {
		s["maximum"] = g.bound()
		if g.coin("exclmax", 3) {
			s["exclusiveMaximum"] = true
		}
	}
	if g.coin("minimum", 2) {
		s["minimum"] = g.bound()
		if g.coin("exclmin", 3) {
			s["exclusiveMinimum"] = true
		}
	}
	if len(s) == 0 {
		s["minimum"] = g.bound()
	}
}

func (g *schemaGen) bound() json.Number {
	if g.o.Degenerate && g.coin("hugebound", 5) {
		return json.Number(rapid.SampledFrom([]string{"1e308", "-1e308", "5e-324", "18446744073709551616", "-9223372036854775809", "9007199254740993"}).Draw(g.t, "hugeboundval"))
	}
	return Num(g.t)
}

func (g *schemaGen) stringKw(s map[string]any) {
	any := false
	if g.coin("minLength", 2) {
		s["minLength"] = g.size("minLengthv")
		any = true
	}
	if g.coin("maxLength", 2) {
		s["maxLength"] = g.size("maxLengthv")
		any = true
	}
	if g.coin("pattern", 2) || !any {
		s["pattern"] = g.pattern()
	}
}

// NumericFormats may appear next to numeric types.
var NumericFormats = []string{"int32", "int64", "float", "double"}

func (g *schemaGen) format(s map[string]any) {
	// format only next to an explicit type (as in Swagger)
	t := g.t
	if g.o.Degenerate && g.coin("degformat", 3) {
		// any format next to any type, or alone
		s["format"] = rapid.SampledFrom(append(append([]string{"nope", ""}, g.o.Formats...), NumericFormats...)).Draw(t, "degformatname")
		if g.coin("degformattype", 2) {
			s["type"] = g.typeKw()
		}
		return
	}
	if len(g.o.Formats) > 0 && !g.coin("numformat", 4) {
		if g.coin("nullablestr", 5) {
			s["type"] = []any{"string", "null"}
		} else {
			s["type"] = "string"
		}
		s["format"] = rapid.SampledFrom(g.o.Formats).Draw(t, "format")
		return
	}
	if g.coin("intformat", 2) {
		s["type"] = "integer"
		s["format"] = rapid.SampledFrom([]string{"int32", "int64"}).Draw(t, "intformatname")
	} else {
		s["type"] = "number"
		s["format"] = rapid.SampledFrom([]string{"float", "double"}).Draw(t, "numformatname")
	}
}

func (g *schemaGen) array(s map[string]any, depth int) {
	kind := g.pick("itemskind", 5)
	if g.o.TupleOnly && kind < 2 {
		kind = 2
	}
	switch kind {
	case 0, 1:
		s["items"] = g.sub(depth)
		if g.coin("addlitems-with-schema-items", 4) {
			// additionalItems next to a single-schema items is ignored by draft 4
			if g.coin("addlitemsbool", 2) {
				s["additionalItems"] = g.coin("addlitemsval", 2)
			} else {
				s["additionalItems"] = g.sub(depth)
			}
		}
	case 2, 3:
		minN := 1
		if g.o.Degenerate {
			minN = 0
		}
		s["items"] = g.subs("ntuple", depth, minN, 3)
		switch g.pick("addlitemskind", 4) {
		case 0:
			s["additionalItems"] = false
		case 1:
			s["additionalItems"] = true
		case 2:
			s["additionalItems"] = g.sub(depth)
		}
	default:
		if g.coin("addlitems-alone", 3) {
			if g.coin("addlitemsbool2", 2) {
				s["additionalItems"] = false
			} else {
				s["additionalItems"] = g.sub(depth)
			}
		}
	}
	if g.coin("minItems", 3) {
		s["minItems"] = g.size("minItemsv")
	}
	if g.coin("maxItems", 3) {
		s["maxItems"] = g.size("maxItemsv")
	}
	if g.coin("uniqueItems", 3) {
		s["uniqueItems"] = true
	}
}

func (g *schemaGen) object(s map[string]any, depth int) {
	t := g.t
	if !g.coin("noprops", 4) {
		props := map[string]any{}
		n := rapid.IntRange(1, 3).Draw(t, "nprops")
		for i := 0; i < n; i++ {
			p := g.sub(depth)
			if g.o.Defaults && g.coin("default", 2) {
				if _, isRef := p["$ref"]; !isRef {
					p["default"] = g.defaultValue()
				}
			}
			props[Name(t)] = p
		}
		s["properties"] = props
	}
	if g.coin("patternProperties", 3) {
		pp := map[string]any{}
		n := rapid.IntRange(1, 2).Draw(t, "npatprops")
		for i := 0; i < n; i++ {
			pp[g.pattern()] = g.sub(depth)
		}
		s["patternProperties"] = pp
	}
	switch g.pick("addlprops", 5) {
	case 0:
		s["additionalProperties"] = false
	case 1:
		s["additionalProperties"] = true
	case 2:
		s["additionalProperties"] = g.sub(depth)
	}
	if g.coin("required", 2) {
		minN := 1
		if g.o.Degenerate {
			minN = 0
		}
		s["required"] = g.names("nrequired", minN, 2)
	}
	if g.coin("minProperties", 4) {
		s["minProperties"] = g.size("minPropertiesv")
	}
	if g.coin("maxProperties", 4) {
		s["maxProperties"] = g.size("maxPropertiesv")
	}
}

func (g *schemaGen) defaultValue() any {
	// non-null defaults with a recognisable marker so that the defaults model can tell them apart
	switch g.pick("defaultkind", 4) {
	case 0:
		return json.Number(strconv.Itoa(100 + g.pick("defaultnum", 50)))
	case 1:
		return "dflt" + strconv.Itoa(g.pick("defaultstr", 50))
	case 2:
		return map[string]any{"d": json.Number(strconv.Itoa(g.pick("defaultobj", 50)))}
	default:
		return []any{"d", json.Number(strconv.Itoa(g.pick("defaultarr", 50)))}
	}
}

// SortedKeys returns the keys of m in sorted order.
func SortedKeys(m map[string]any) []string {
	keys := make([]string, 0, len(m))
	for k := range m {
		keys = append(keys, k)
	}
	sortStrings(keys)
	return keys
}

func sortStrings(a []string) {
	for i := 1; i < len(a); i++ {
		for j := i; j > 0 && a[j] < a[j-1]; j-- {
			a[j], a[j-1] = a[j-1], a[j]
		}
	}
}
