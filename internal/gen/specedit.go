package gen

import (
	"sort"
	"strings"

	"pgregory.net/rapid"
)

// RuleEdits lists the rule-breaking edits (C03): each breaks exactly one documented rule.
var RuleEdits = []string{
	"dupOperationID", "pathParamNotInTemplate", "placeholderWithoutParam", "placeholderRepeatedAdjacent", "placeholderRepeatedApart",
	"pathParamNotRequired", "dupParamInline", "dupParamPathLevel", "dupParamViaShared", "twoBodyParams", "bodyAndForm",
	"paramArrayNoItems", "paramNestedArrayNoItems", "headerArrayNoItems", "schemaArrayNoItems",
	"requiredUndefined", "requiredUndefinedWithSchemaAdditionalProperties", "unresolvableDefinitionRef", "unresolvableFileRefs", "unresolvableParameterRef", "unresolvableResponseRef",
	"dupInheritedProperty", "dupInheritedPropertyBesideAllOf", "circularAncestry", "overlappingPaths", "overlappingPaths3",
	"invalidPatternParam", "invalidPatternNonStringParam", "unresolvableAllOfRef", "invalidPatternHeader", "invalidPatternSchema", "invalidPatternItems",
	"missingPaths", "emptyPlaceholder",
}

func pathItem(doc map[string]any, path string) map[string]any {
	paths, _ := doc["paths"].(map[string]any)
	it, _ := paths[path].(map[string]any)
	return it
}

func operationOf(doc map[string]any, oi OpInfo) map[string]any {
	it := pathItem(doc, oi.Path)
	op, _ := it[oi.Method].(map[string]any)
	return op
}

func paramsOf(op map[string]any) []any {
	ps, _ := op["parameters"].([]any)
	return ps
}

// StableRuleEdits are the rule edits after which the library's messages do not depend on map iteration order:
// a circular ancestry is named by whichever member of the cycle is met first, and of two unresolvable references the
// expander of go-openapi/spec quotes whichever it meets first (both belong to C10, which knows how to compare them).
// Checks that compare messages between two executions for another reason (recycling, concurrency) draw from these.
func StableRuleEdits() []string {
	var out []string
	for _, e := range RuleEdits {
		if e != "circularAncestry" && e != "unresolvableFileRefs" {
			out = append(out, e)
		}
	}
	return out
}

// ErrorPathEdit draws a rule edit for the checks about recycling and concurrency: one time in three an edit that
// leaves a reference unresolvable (with continue-on-errors the library then walks its error paths, where intermediate
// results are merged and handed back to the pools), else any order-stable edit.
func ErrorPathEdit(t *rapid.T) string {
	if UniformIndex(t, 3, "errorpathedit") == 0 {
		return PickUniform(t, []string{"unresolvableAllOfRef", "unresolvableAllOfRef", "unresolvableDefinitionRef", "unresolvableParameterRef", "unresolvableResponseRef"}, "docedit")
	}
	return PickUniform(t, StableRuleEdits(), "docedit")
}

func pickOp(t *rapid.T, info *SpecInfo, pred func(OpInfo) bool) (OpInfo, bool) {
	var c []OpInfo
	for _, o := range info.Ops {
		if pred == nil || pred(o) {
			c = append(c, o)
		}
	}
	if len(c) == 0 {
		return OpInfo{}, false
	}
	return PickUniform(t, c, "editop"), true
}

func renamePath(doc map[string]any, info *SpecInfo, old, new string) {
	paths, _ := doc["paths"].(map[string]any)
	paths[new] = paths[old]
	delete(paths, old)
	info.Placeholders[new] = info.Placeholders[old]
	delete(info.Placeholders, old)
	for i := range info.Ops {
		if info.Ops[i].Path == old {
			info.Ops[i].Path = new
		}
	}
}

func sortedDefs(doc map[string]any) (map[string]any, []string) {
	defs, _ := doc["definitions"].(map[string]any)
	keys := make([]string, 0, len(defs))
	for k := range defs {
		keys = append(keys, k)
	}
	sort.Strings(keys)
	return defs, keys
}

// firstResponse returns some inline response object of an operation (not a $ref).
func firstInlineResponse(op map[string]any) map[string]any {
	resps, _ := op["responses"].(map[string]any)
	for _, k := range SortedKeys(resps) {
		if r, ok := resps[k].(map[string]any); ok {
			if _, isRef := r["$ref"]; !isRef {
				return r
			}
		}
	}
	return nil
}

// ApplyRuleEdit applies the named edit; it returns false when the document offers no place for it.
func ApplyRuleEdit(t *rapid.T, name string, doc map[string]any, info *SpecInfo) bool {
	switch name {
	case "dupOperationID":
		if len(info.Ops) < 2 {
			return false
		}
		i := 1 + UniformIndex(t, len(info.Ops)-1, "dupopidx")
		j := UniformIndex(t, i, "dupopidx2")
		id := info.Ops[j].ID
		if UniformIndex(t, 3, "unusualopid") == 0 {
			// any string is an operation id: the duplicated one may have spaces, dots, non-ASCII letters or look like a path
			id = PickUniform(t, []string{"list things", "a.b", "é", " ", "get/things", "GET things", "100%", "x y z"}, "opid")
			operationOf(doc, info.Ops[j])["operationId"] = id
			info.Ops[j].ID = id
		}
		operationOf(doc, info.Ops[i])["operationId"] = id
		info.Ops[i].ID = id
		return true
	case "pathParamNotInTemplate":
		oi, ok := pickOp(t, info, nil)
		if !ok {
			return false
		}
		op := operationOf(doc, oi)
		op["parameters"] = append(paramsOf(op), map[string]any{"name": "ghost", "in": "path", "required": true, "type": "string"})
		return true
	case "placeholderWithoutParam":
		oi, ok := pickOp(t, info, func(o OpInfo) bool { return len(info.Placeholders[o.Path]) > 0 })
		if !ok {
			return false
		}
		victim := info.Placeholders[oi.Path][0]
		drop := func(ps []any) []any {
			var out []any
			for _, p := range ps {
				if m, ok := p.(map[string]any); ok && m["in"] == "path" && m["name"] == victim {
					continue
				}
				out = append(out, p)
			}
			return out
		}
		if oi.PathParamsAtPathLevel {
			it := pathItem(doc, oi.Path)
			it["parameters"] = drop(paramsOf(it))
			if len(paramsOf(it)) == 0 {
				delete(it, "parameters")
			}
		} else {
			op := operationOf(doc, oi)
			op["parameters"] = drop(paramsOf(op))
			if len(paramsOf(op)) == 0 {
				delete(op, "parameters")
			}
		}
		return true
	case "placeholderRepeatedAdjacent", "placeholderRepeatedApart":
		oi, ok := pickOp(t, info, func(o OpInfo) bool { return len(info.Placeholders[o.Path]) > 0 })
		if !ok {
			return false
		}
		h := info.Placeholders[oi.Path][0]
		np := oi.Path
		if name == "placeholderRepeatedAdjacent" {
			np = strings.TrimSuffix(np, "/") + "/{" + h + "}"
		} else {
			np = strings.TrimSuffix(np, "/") + "/mid/{" + h + "}"
		}
		renamePath(doc, info, oi.Path, np)
		return true
	case "pathParamNotRequired":
		oi, ok := pickOp(t, info, func(o OpInfo) bool { return len(info.Placeholders[o.Path]) > 0 })
		if !ok {
			return false
		}
		holder := operationOf(doc, oi)
		if oi.PathParamsAtPathLevel {
			holder = pathItem(doc, oi.Path)
		}
		for _, p := range paramsOf(holder) {
			if m, ok := p.(map[string]any); ok && m["in"] == "path" {
				if rapid.Bool().Draw(t, "requiredfalse") {
					m["required"] = false
				} else {
					delete(m, "required")
				}
				return true
			}
		}
		return false
	case "dupParamInline":
		oi, ok := pickOp(t, info, nil)
		if !ok {
			return false
		}
		op := operationOf(doc, oi)
		p := map[string]any{"name": "twin", "in": "query", "type": "string"}
		q := map[string]any{"name": "twin", "in": "query", "type": "integer"}
		op["parameters"] = append(paramsOf(op), p, q)
		return true
	case "dupParamPathLevel":
		// the two declarations sit in the parameter list of a path item
		oi, ok := pickOp(t, info, nil)
		if !ok {
			return false
		}
		item := pathItem(doc, oi.Path)
		ps, _ := item["parameters"].([]any)
		item["parameters"] = append(ps, map[string]any{"name": "twin", "in": "query", "type": "string"}, map[string]any{"name": "twin", "in": "query", "type": "integer"})
		return true
	case "dupParamViaShared":
		if len(info.SharedParams) == 0 {
			return false
		}
		oi, ok := pickOp(t, info, nil)
		if !ok {
			return false
		}
		key := info.SharedParams[0]
		sp, _ := doc["parameters"].(map[string]any)[key].(map[string]any)
		if sp == nil {
			return false
		}
		op := operationOf(doc, oi)
		// make sure the operation references the shared parameter exactly once, then add an inline twin
		has := false
		for _, p := range paramsOf(op) {
			if m, ok := p.(map[string]any); ok && m["$ref"] == "#/parameters/"+key {
				has = true
			}
		}
		ps := paramsOf(op)
		if !has {
			ps = append(ps, map[string]any{"$ref": "#/parameters/" + key})
		}
		ps = append(ps, map[string]any{"name": sp["name"], "in": sp["in"], "type": "string"})
		op["parameters"] = ps
		info.UsedSharedParam = true
		return true
	case "twoBodyParams":
		oi, ok := pickOp(t, info, func(o OpInfo) bool { return o.HasBody })
		if !ok {
			return false
		}
		op := operationOf(doc, oi)
		second := map[string]any{"name": "body2", "in": "body", "schema": map[string]any{"type": "object"}}
		if len(info.SharedParams) > 0 && rapid.Bool().Draw(t, "secondbodyshared") {
			// one of the two body parameters comes through #/parameters
			doc["parameters"].(map[string]any)["sharedBody"] = second
			op["parameters"] = append(paramsOf(op), map[string]any{"$ref": "#/parameters/sharedBody"})
		} else {
			op["parameters"] = append(paramsOf(op), second)
		}
		return true
	case "bodyAndForm":
		oi, ok := pickOp(t, info, func(o OpInfo) bool { return o.HasBody || o.HasForm })
		if !ok {
			return false
		}
		op := operationOf(doc, oi)
		if oi.HasBody {
			op["parameters"] = append(paramsOf(op), map[string]any{"name": "extraField", "in": "formData", "type": "string"})
		} else {
			op["parameters"] = append(paramsOf(op), map[string]any{"name": "extraBody", "in": "body", "schema": map[string]any{"type": "object"}})
		}
		return true
	case "paramArrayNoItems", "paramNestedArrayNoItems":
		oi, ok := pickOp(t, info, nil)
		if !ok {
			return false
		}
		op := operationOf(doc, oi)
		p := map[string]any{"name": "list", "in": "query", "type": "array"}
		if name == "paramNestedArrayNoItems" {
			p["items"] = map[string]any{"type": "array"}
		}
		op["parameters"] = append(paramsOf(op), p)
		return true
	case "headerArrayNoItems":
		oi, ok := pickOp(t, info, func(o OpInfo) bool { return firstInlineResponse(operationOf(doc, o)) != nil })
		if !ok {
			return false
		}
		r := firstInlineResponse(operationOf(doc, oi))
		hs, _ := r["headers"].(map[string]any)
		if hs == nil {
			hs = map[string]any{}
			r["headers"] = hs
		}
		hs["X-List"] = map[string]any{"type": "array"}
		return true
	case "schemaArrayNoItems":
		oi, ok := pickOp(t, info, func(o OpInfo) bool { return firstInlineResponse(operationOf(doc, o)) != nil })
		if !ok {
			return false
		}
		r := firstInlineResponse(operationOf(doc, oi))
		if rapid.Bool().Draw(t, "nestedarraynoitems") {
			r["schema"] = map[string]any{"type": "array", "items": map[string]any{"type": "array"}}
		} else {
			r["schema"] = map[string]any{"type": "array"}
		}
		return true
	case "requiredUndefined":
		defs, keys := sortedDefs(doc)
		for _, k := range keys {
			d, _ := defs[k].(map[string]any)
			if _, isAllOf := d["allOf"]; isAllOf {
				continue
			}
			if ap, has := d["additionalProperties"]; has && ap != false {
				continue
			}
			req, _ := d["required"].([]any)
			dup := false
			for _, r := range req {
				dup = dup || r == "ghostProperty"
			}
			if dup {
				continue
			}
			d["required"] = append(req, "ghostProperty")
			return true
		}
		return false
	case "requiredUndefinedWithSchemaAdditionalProperties":
		// a schema-valued additionalProperties does not define the required name either (the library looks for
		// the name inside that schema; a plain {"type":"string"} has no such property)
		defs, keys := sortedDefs(doc)
		for _, k := range keys {
			d, _ := defs[k].(map[string]any)
			if _, isAllOf := d["allOf"]; isAllOf {
				continue
			}
			if _, has := d["additionalProperties"]; has {
				continue
			}
			req, _ := d["required"].([]any)
			clash := false
			for _, r := range req {
				clash = clash || r == "ghostProperty" || r == "satisfiedGhost" || r == "ghostBesideSchema"
			}
			if clash {
				continue
			}
			d["required"] = append(req, "ghostBesideSchema")
			d["additionalProperties"] = map[string]any{"type": "string"}
			return true
		}
		return false
	case "requiredSatisfiedByAdditionalProperties":
		// control (breaks nothing): a required name without a property is satisfied by additionalProperties: true
		defs, keys := sortedDefs(doc)
		for _, k := range keys {
			d, _ := defs[k].(map[string]any)
			if _, isAllOf := d["allOf"]; isAllOf {
				continue
			}
			req, _ := d["required"].([]any)
			conflict := false
			for _, r := range req {
				if rs, isStr := r.(string); isStr && (strings.HasPrefix(rs, "ghost") || rs == "satisfiedGhost") {
					conflict = true // an earlier edit relies on this definition staying as it is
				}
			}
			if conflict {
				continue
			}
			d["required"] = append(req, "satisfiedGhost")
			d["additionalProperties"] = true
			return true
		}
		return false
	case "unresolvableDefinitionRef":
		defs, keys := sortedDefs(doc)
		for _, k := range keys {
			d, _ := defs[k].(map[string]any)
			if props, ok := d["properties"].(map[string]any); ok {
				props["dangling"] = map[string]any{"$ref": "#/definitions/NoSuchDefinition"}
				return true
			}
		}
		return false
	case "unresolvableFileRefs":
		// two references into files that do not exist
		defs, keys := sortedDefs(doc)
		for _, k := range keys {
			d, _ := defs[k].(map[string]any)
			if props, ok := d["properties"].(map[string]any); ok {
				props["inNoFileA"] = map[string]any{"$ref": "no-such-file-a.json#/definitions/X"}
				props["inNoFileB"] = map[string]any{"$ref": "no-such-file-b.yaml#/definitions/Y"}
				return true
			}
		}
		return false
	case "unresolvableParameterRef":
		oi, ok := pickOp(t, info, nil)
		if !ok {
			return false
		}
		op := operationOf(doc, oi)
		op["parameters"] = append(paramsOf(op), map[string]any{"$ref": "#/parameters/noSuchParameter"})
		return true
	case "unresolvableResponseRef":
		oi, ok := pickOp(t, info, nil)
		if !ok {
			return false
		}
		resps, _ := operationOf(doc, oi)["responses"].(map[string]any)
		resps["500"] = map[string]any{"$ref": "#/responses/noSuchResponse"}
		return true
	case "dupInheritedProperty", "dupInheritedPropertyBesideAllOf":
		if len(info.AllOfChildren) == 0 {
			return false
		}
		defs, _ := sortedDefs(doc)
		child, _ := defs[info.AllOfChildren[0]].(map[string]any)
		members, _ := child["allOf"].([]any)
		if len(members) != 2 {
			return false
		}
		ref, _ := members[0].(map[string]any)["$ref"].(string)
		parentName := unescapePtr(strings.TrimPrefix(ref, "#/definitions/"))
		inherited := ownOrInheritedProps(defs, parentName, 0)
		if len(inherited) == 0 {
			return false
		}
		own, _ := members[1].(map[string]any)
		if name == "dupInheritedPropertyBesideAllOf" {
			// the redeclaration sits beside allOf, in the inheriting definition itself
			own = child
		}
		props, _ := own["properties"].(map[string]any)
		if props == nil {
			props = map[string]any{}
			own["properties"] = props
		}
		props[inherited[0]] = map[string]any{"type": "string"}
		return true
	case "circularAncestry":
		if len(info.AllOfChildren) == 0 {
			return false
		}
		defs, _ := sortedDefs(doc)
		childName := info.AllOfChildren[0]
		child, _ := defs[childName].(map[string]any)
		members, _ := child["allOf"].([]any)
		ref, _ := members[0].(map[string]any)["$ref"].(string)
		parentName := unescapePtr(strings.TrimPrefix(ref, "#/definitions/"))
		parent, _ := defs[parentName].(map[string]any)
		// the parent now inherits from its own child
		defs[parentName] = map[string]any{"allOf": []any{map[string]any{"$ref": "#/definitions/" + escapePtr(childName)}, parent}}
		return true
	case "overlappingPaths3":
		// three paths that overlap pairwise: which pairs are reported must not depend on the order of visit
		if !ApplyRuleEdit(t, "overlappingPaths", doc, info) {
			return false
		}
		paths, _ := doc["paths"].(map[string]any)
		for _, p := range SortedKeys(paths) {
			if strings.Contains(p, "{other}") {
				third := strings.Replace(p, "{other}", "{third}", 1)
				it := Clone(paths[p]).(map[string]any)
				var fix func(v any)
				fix = func(v any) {
					switch x := v.(type) {
					case map[string]any:
						if x["in"] == "path" && x["name"] == "other" {
							x["name"] = "third"
						}
						if id, ok := x["operationId"].(string); ok {
							x["operationId"] = id + "3"
						}
						for _, w := range x {
							fix(w)
						}
					case []any:
						for _, w := range x {
							fix(w)
						}
					}
				}
				fix(it)
				paths[third] = it
				var thirdHolders []string
				for _, n := range info.Placeholders[p] {
					if n == "other" {
						n = "third"
					}
					thirdHolders = append(thirdHolders, n)
				}
				info.Placeholders[third] = thirdHolders
				return true
			}
		}
		return true
	case "overlappingPaths":
		// a twin of a templated path that differs only in the name of one placeholder (anywhere in the template)
		oi, ok := pickOp(t, info, func(o OpInfo) bool {
			ph := info.Placeholders[o.Path]
			for _, n := range ph {
				if n == "other" || n == "third" || strings.Count(o.Path, "{"+n+"}") != 1 {
					return false
				}
			}
			return len(ph) > 0
		})
		if !ok {
			return false
		}
		holders := info.Placeholders[oi.Path]
		old := PickUniform(t, holders, "renamedplaceholder")
		twin := strings.Replace(oi.Path, "{"+old+"}", "{other}", 1)
		it := Clone(pathItem(doc, oi.Path)).(map[string]any)
		// rename the path parameter everywhere in the copied item and give fresh operation ids
		var fix func(v any)
		n := 0
		fix = func(v any) {
			switch x := v.(type) {
			case map[string]any:
				if x["in"] == "path" && x["name"] == old {
					x["name"] = "other"
				}
				if id, ok := x["operationId"].(string); ok {
					n++
					x["operationId"] = id + "twin"
				}
				for _, w := range x {
					fix(w)
				}
			case []any:
				for _, w := range x {
					fix(w)
				}
			}
		}
		fix(it)
		doc["paths"].(map[string]any)[twin] = it
		var twinHolders []string
		for _, n := range holders {
			if n == old {
				n = "other"
			}
			twinHolders = append(twinHolders, n)
		}
		info.Placeholders[twin] = twinHolders
		return true
	case "invalidPatternParam":
		oi, ok := pickOp(t, info, nil)
		if !ok {
			return false
		}
		op := operationOf(doc, oi)
		op["parameters"] = append(paramsOf(op), map[string]any{"name": "pat", "in": "query", "type": "string", "pattern": "(unclosed"})
		return true
	case "invalidPatternNonStringParam":
		// an uncompilable pattern on a parameter that is not a string (the pattern keyword is out of place there, but still must be valid)
		oi, ok := pickOp(t, info, nil)
		if !ok {
			return false
		}
		op := operationOf(doc, oi)
		op["parameters"] = append(paramsOf(op), map[string]any{"name": "patInt", "in": "query", "type": rapid.SampledFrom([]string{"integer", "number", "boolean"}).Draw(t, "nonstringtype"), "pattern": "(unclosed"})
		return true
	case "unresolvableAllOfRef":
		// a definition inheriting (allOf) from a parent that does not exist
		defs, keys := sortedDefs(doc)
		for _, k := range keys {
			d, _ := defs[k].(map[string]any)
			if _, isAllOf := d["allOf"]; isAllOf {
				continue
			}
			defs[k] = map[string]any{"allOf": []any{map[string]any{"$ref": "#/definitions/NoSuchParent"}, d}}
			return true
		}
		return false
	case "invalidPatternHeader":
		oi, ok := pickOp(t, info, func(o OpInfo) bool { return firstInlineResponse(operationOf(doc, o)) != nil })
		if !ok {
			return false
		}
		r := firstInlineResponse(operationOf(doc, oi))
		hs, _ := r["headers"].(map[string]any)
		if hs == nil {
			hs = map[string]any{}
			r["headers"] = hs
		}
		hs["X-Pat"] = map[string]any{"type": "string", "pattern": "[a-"}
		return true
	case "invalidPatternSchema":
		defs, keys := sortedDefs(doc)
		for _, k := range keys {
			d, _ := defs[k].(map[string]any)
			if props, ok := d["properties"].(map[string]any); ok {
				props["patterned"] = map[string]any{"type": "string", "pattern": "a{2,1}"}
				return true
			}
		}
		return false
	case "invalidPatternItems":
		oi, ok := pickOp(t, info, func(o OpInfo) bool { return firstInlineResponse(operationOf(doc, o)) != nil })
		if !ok {
			return false
		}
		r := firstInlineResponse(operationOf(doc, oi))
		r["schema"] = map[string]any{"type": "array", "items": map[string]any{"type": "string", "pattern": "(?P<"}}
		return true
	case "missingPaths":
		delete(doc, "paths")
		info.Ops = nil
		info.Placeholders = map[string][]string{}
		return true
	case "emptyPlaceholder":
		paths, _ := doc["paths"].(map[string]any)
		if paths == nil {
			return false
		}
		paths["/empty/{}"] = map[string]any{"get": map[string]any{"operationId": "emptyHolder", "responses": map[string]any{"200": map[string]any{"description": "ok"}}}}
		return true
	}
	return false
}

func unescapePtr(s string) string {
	s = strings.ReplaceAll(s, "%20", " ")
	s = strings.ReplaceAll(s, "%25", "%")
	s = strings.ReplaceAll(s, "~1", "/")
	s = strings.ReplaceAll(s, "~0", "~")
	return s
}

// ownOrInheritedProps lists (sorted) the property names a definition offers, following allOf chains.
func ownOrInheritedProps(defs map[string]any, name string, depth int) []string {
	if depth > 8 {
		return nil
	}
	d, _ := defs[name].(map[string]any)
	seen := map[string]bool{}
	var walk func(s map[string]any, depth int)
	walk = func(s map[string]any, depth int) {
		if s == nil || depth > 8 {
			return
		}
		if ref, ok := s["$ref"].(string); ok {
			tgt, _ := defs[unescapePtr(strings.TrimPrefix(ref, "#/definitions/"))].(map[string]any)
			walk(tgt, depth+1)
			return
		}
		if members, ok := s["allOf"].([]any); ok {
			for _, m := range members {
				mm, _ := m.(map[string]any)
				walk(mm, depth+1)
			}
			return
		}
		if props, ok := s["properties"].(map[string]any); ok {
			for k := range props {
				seen[k] = true
			}
		}
	}
	walk(d, depth)
	out := make([]string, 0, len(seen))
	for k := range seen {
		out = append(out, k)
	}
	sort.Strings(out)
	return out
}
