package gen

import (
	"encoding/json"
	"strconv"

	"pgregory.net/rapid"
)

// SimpleDef draws the JSON form of a Swagger simple schema (the part shared by
// non-body parameters, headers and items): type, format, enum, numeric, string
// and array constraints, items nested up to maxDepth.
func SimpleDef(t *rapid.T, maxDepth int) map[string]any {
	return simpleDef(t, maxDepth, rapid.SampledFrom([]string{"string", "number", "integer", "boolean", "array", "array"}).Draw(t, "simpletype"))
}

func simpleDef(t *rapid.T, depth int, typ string) map[string]any {
	d := map[string]any{"type": typ}
	coin := func(label string, n int) bool { return rapid.IntRange(0, n-1).Draw(t, label) == 0 }
	switch typ {
	case "string":
		if coin("sfmt", 3) {
			d["format"] = rapid.SampledFrom([]string{"date", "uuid", "email", "nope"}).Draw(t, "sformat")
		}
		if coin("sminl", 3) {
			d["minLength"] = json.Number(strconv.Itoa(rapid.IntRange(0, 3).Draw(t, "sminlv")))
		}
		if coin("smaxl", 3) {
			d["maxLength"] = json.Number(strconv.Itoa(rapid.IntRange(0, 4).Draw(t, "smaxlv")))
		}
		if coin("spat", 3) {
			d["pattern"] = rapid.SampledFrom(Patterns).Draw(t, "spattern")
		}
		if coin("senum", 4) {
			n := rapid.IntRange(1, 3).Draw(t, "senumn")
			var en []any
			for i := 0; i < n; i++ {
				en = append(en, Str(t))
			}
			d["enum"] = en
		}
	case "number", "integer":
		if coin("nfmt", 3) {
			if typ == "integer" {
				d["format"] = rapid.SampledFrom([]string{"int32", "int64"}).Draw(t, "ifmt")
			} else {
				d["format"] = rapid.SampledFrom([]string{"float", "double"}).Draw(t, "ffmt")
			}
		}
		bound := func(label string) json.Number {
			if typ == "integer" {
				return json.Number(strconv.Itoa(rapid.IntRange(-5, 12).Draw(t, label)))
			}
			return Num(t)
		}
		if coin("nmax", 3) {
			d["maximum"] = bound("nmaxv")
			if coin("nexmax", 3) {
				d["exclusiveMaximum"] = true
			}
		}
		if coin("nmin", 3) {
			d["minimum"] = bound("nminv")
			if coin("nexmin", 3) {
				d["exclusiveMinimum"] = true
			}
		}
		if coin("nmult", 4) {
			if typ == "integer" {
				d["multipleOf"] = json.Number(strconv.Itoa(rapid.IntRange(1, 5).Draw(t, "nmultv")))
			} else {
				d["multipleOf"] = PosNum(t)
			}
		}
		if coin("nenum", 4) {
			n := rapid.IntRange(1, 3).Draw(t, "nenumn")
			var en []any
			for i := 0; i < n; i++ {
				en = append(en, bound("nenumv"))
			}
			d["enum"] = en
		}
	case "array":
		if depth > 0 {
			it := rapid.SampledFrom([]string{"string", "number", "integer", "boolean", "array"}).Draw(t, "itemtype")
			if depth == 1 && it == "array" {
				it = "string"
			}
			d["items"] = simpleDef(t, depth-1, it)
		} else {
			d["items"] = simpleDef(t, 0, "string")
		}
		if coin("amin", 3) {
			d["minItems"] = json.Number(strconv.Itoa(rapid.IntRange(0, 3).Draw(t, "aminv")))
		}
		if coin("amax", 3) {
			d["maxItems"] = json.Number(strconv.Itoa(rapid.IntRange(0, 4).Draw(t, "amaxv")))
		}
		if coin("auniq", 3) {
			d["uniqueItems"] = true
		}
	}
	return d
}

// SimpleValue draws a JSON value for a simple definition: mostly of the
// declared shape, sometimes of another kind.
func SimpleValue(t *rapid.T, d map[string]any, depth int) any {
	if rapid.IntRange(0, 7).Draw(t, "simpleoff") == 0 || depth > 5 {
		return Scalar(t)
	}
	typ, _ := d["type"].(string)
	if en, ok := d["enum"].([]any); ok && len(en) > 0 && rapid.IntRange(0, 2).Draw(t, "simpleenum") > 0 {
		return en[rapid.IntRange(0, len(en)-1).Draw(t, "simpleenumidx")]
	}
	switch typ {
	case "string":
		ig := &instGen{t: t, root: map[string]any{}}
		return ig.str(d)
	case "number":
		ig := &instGen{t: t, root: map[string]any{}}
		return ig.number(d, false)
	case "integer":
		ig := &instGen{t: t, root: map[string]any{}}
		return ig.number(d, true)
	case "boolean":
		return rapid.Bool().Draw(t, "simplebool")
	case "array":
		items, _ := d["items"].(map[string]any)
		n := rapid.IntRange(0, 4).Draw(t, "simplearrlen")
		out := make([]any, 0, n)
		for i := 0; i < n; i++ {
			if items != nil {
				out = append(out, SimpleValue(t, items, depth+1))
			} else {
				out = append(out, Scalar(t))
			}
		}
		return out
	}
	return Scalar(t)
}
