package gen

import (
	"encoding/json"
	"sort"
	"strconv"
	"strings"

	"pgregory.net/rapid"
)

// slot designates one child of a container in a decoded JSON tree.
type slot struct {
	obj  map[string]any
	key  string
	arr  []any
	idx  int
	deep int
}

func (s slot) get() any {
	if s.obj != nil {
		return s.obj[s.key]
	}
	return s.arr[s.idx]
}

func (s slot) set(v any) {
	if s.obj != nil {
		s.obj[s.key] = v
		return
	}
	s.arr[s.idx] = v
}

func collectSlots(v any, depth int, out *[]slot) {
	switch x := v.(type) {
	case map[string]any:
		keys := make([]string, 0, len(x))
		for k := range x {
			keys = append(keys, k)
		}
		sort.Strings(keys)
		for _, k := range keys {
			*out = append(*out, slot{obj: x, key: k, deep: depth})
			collectSlots(x[k], depth+1, out)
		}
	case []any:
		for i := range x {
			*out = append(*out, slot{arr: x, idx: i, deep: depth})
			collectSlots(x[i], depth+1, out)
		}
	}
}

// HostileKeys are the names used by the rename edit.
var HostileKeys = []string{"a.a", "x.x", "", "a.b", "default", "example", "x-ext", "$ref", "items", "properties", "0", "é", "a b", "paths", "allOf", "X-Internal-Id", "x", "X-", "xx-y"}

// MutateKinds lists the structural edits of Mutate.
var MutateKinds = []string{"delete", "retype", "null", "rename", "transplant", "duplicate", "retarget-ref", "ref-with-sibling", "hostile-name", "string-case", "blank-string", "plant-value", "self-ref-definition", "respell-duplicate-number", "key-case", "mixed-duplicate", "null-member",
	// plant-value has eight sub-kinds of its own: it is listed three times
	"plant-value", "plant-value"}

// Mutate applies one structural edit to a decoded document (in place) and returns
// the kind of edit and the depth at which it landed (0 = a top-level member); ok is
// false when the edit found no place.
func Mutate(t *rapid.T, doc map[string]any) (kind string, depth int, ok bool) {
	var slots []slot
	collectSlots(doc, 0, &slots)
	if len(slots) == 0 {
		return "", 0, false
	}
	kind = PickUniform(t, MutateKinds, "mutation")
	// prefer deeper places: draw two candidates, keep the deeper one
	pick := func(label string) slot {
		a := PickUniform(t, slots, label)
		b := PickUniform(t, slots, label+"2")
		if b.deep > a.deep {
			return b
		}
		return a
	}
	s := pick("slot")
	switch kind {
	case "delete":
		if s.obj == nil {
			return kind, s.deep, false
		}
		delete(s.obj, s.key)
	case "retype":
		switch s.get().(type) {
		case map[string]any:
			s.set(rapid.SampledFrom([]any{"a string", []any{}, Number(3), true}).Draw(t, "retypeobj"))
		case []any:
			s.set(rapid.SampledFrom([]any{"a string", map[string]any{}, Number(0), false}).Draw(t, "retypearr"))
		case string:
			s.set(rapid.SampledFrom([]any{Number(1), map[string]any{}, []any{"x"}, true}).Draw(t, "retypestr"))
		default:
			s.set(rapid.SampledFrom([]any{"str", map[string]any{"a": Number(1)}, []any{}}).Draw(t, "retypeother"))
		}
	case "null":
		s.set(nil)
	case "rename":
		if s.obj == nil {
			return kind, s.deep, false
		}
		nk := rapid.SampledFrom(HostileKeys).Draw(t, "newkey")
		if _, exists := s.obj[nk]; exists || nk == s.key {
			return kind, s.deep, false
		}
		s.obj[nk] = s.obj[s.key]
		delete(s.obj, s.key)
	case "transplant":
		src := pick("srcslot")
		s.set(Clone(src.get()))
	case "string-case", "blank-string":
		// change the spelling of a string value: another case (keywords of the Swagger schema are case-sensitive) or the empty string
		var strSlots []slot
		for _, c := range slots {
			if v, isStr := c.get().(string); isStr && v != "" {
				strSlots = append(strSlots, c)
			}
		}
		if len(strSlots) == 0 {
			return kind, 0, false
		}
		c := PickUniform(t, strSlots, "strslot")
		if kind == "blank-string" {
			c.set("")
			return kind, c.deep, true
		}
		v := c.get().(string)
		up := strings.ToUpper(v)
		if up == v {
			up = strings.ToLower(v)
		}
		if up == v {
			return kind, c.deep, false
		}
		c.set(up)
		return kind, c.deep, true
	case "null-member":
		// an object gets one more member, unknown to any schema, whose value is null (or, one time in four, false)
		var objSlots []slot
		for _, c := range slots {
			if _, isObj := c.get().(map[string]any); isObj {
				objSlots = append(objSlots, c)
			}
		}
		var target map[string]any
		depth := 0
		if len(objSlots) == 0 || UniformIndex(t, 8, "nullattop") == 0 {
			target = doc
		} else {
			c := PickUniform(t, objSlots, "nullmemberslot")
			target, depth = c.get().(map[string]any), c.deep+1
		}
		nk := PickUniform(t, []string{"termsOfServices", "extra", "zz", "Description", "nullable"}, "nullmembername")
		if _, exists := target[nk]; exists {
			return kind, depth, false
		}
		if UniformIndex(t, 4, "nullorfalse") == 0 {
			target[nk] = false
		} else {
			target[nk] = nil
		}
		return kind, depth, true
	case "key-case":
		// the same member name in another case: names of the Swagger schema (and its ^x- pattern) are case-sensitive
		var keySlots []slot
		for _, c := range slots {
			if c.obj != nil && (strings.ToUpper(c.key) != c.key || strings.ToLower(c.key) != c.key) {
				keySlots = append(keySlots, c)
			}
		}
		if len(keySlots) == 0 {
			return kind, 0, false
		}
		c := PickUniform(t, keySlots, "keyslot")
		nk := strings.ToUpper(c.key[:1]) + c.key[1:]
		if nk == c.key || rapid.Bool().Draw(t, "allupper") {
			nk = strings.ToUpper(c.key)
		}
		if nk == c.key {
			nk = strings.ToLower(c.key)
		}
		if _, exists := c.obj[nk]; exists {
			return kind, c.deep, false
		}
		c.obj[nk] = c.obj[c.key]
		delete(c.obj, c.key)
		return kind, c.deep, true
	case "mixed-duplicate":
		// an array gets a value of another type in second position and a copy of its first element at the end:
		// [a, b] -> [a, 7, b, a] (an enum, which must hold unique items, now has a duplicate across a change of type)
		var arrSlots, enumSlots []slot
		for _, c := range slots {
			if a, isArr := c.get().([]any); isArr && len(a) > 0 {
				arrSlots = append(arrSlots, c)
				if c.obj != nil && c.key == "enum" {
					enumSlots = append(enumSlots, c)
				}
			}
		}
		if len(arrSlots) == 0 {
			return kind, 0, false
		}
		from := arrSlots
		if len(enumSlots) > 0 && UniformIndex(t, 4, "preferenum") != 0 {
			from = enumSlots
		}
		c := PickUniform(t, from, "mixedarr")
		a := c.get().([]any)
		var other any = Number(7)
		if _, isNum := a[0].(json.Number); isNum {
			other = "seven"
		}
		out := []any{a[0], other}
		out = append(out, a[1:]...)
		out = append(out, Clone(a[0]))
		c.set(out)
		return kind, c.deep, true
	case "plant-value":
		// plant a default / example (any JSON value, nulls included) on something that looks like a schema, parameter, header or items object
		var typed []slot
		for _, c := range slots {
			if m, isObj := c.get().(map[string]any); isObj {
				_, hasType := m["type"]
				_, hasIn := m["in"] // parameters, whatever else they declare
				if hasType || hasIn {
					typed = append(typed, c)
				}
			}
		}
		if len(typed) == 0 {
			return kind, 0, false
		}
		c := PickUniform(t, typed, "typedslot")
		m := c.get().(map[string]any)
		var v any
		switch UniformIndex(t, 8, "plantedkind") {
		case 7:
			// a numeric constraint that does not fit the declared type (a fractional or huge multipleOf / bound on an
			// integer), with a value that meets it: the library then takes its "constraint nevertheless validated" branches
			m["type"] = "integer"
			delete(m, "items")
			if rapid.Bool().Draw(t, "int32format") {
				m["format"] = "int32"
			} else {
				delete(m, "format")
			}
			if UniformIndex(t, 4, "oddconstraint") != 0 {
				m["multipleOf"] = PickUniform(t, []any{json.Number("2.5"), json.Number("0.5"), json.Number("2.5"), json.Number("1e30")}, "oddfactor")
			} else {
				m[PickUniform(t, []string{"maximum", "minimum"}, "oddbound")] = PickUniform(t, []any{json.Number("2.5"), json.Number("4294967296"), json.Number("1e30")}, "oddvalue")
			}
			v = PickUniform(t, []any{Number(5), Number(0), Number(10), Number(3)}, "oddplanted")
		case 5:
			// an enumeration (and uniqueItems) mixing a scalar with a container
			m["enum"] = []any{Scalar(t), []any{Scalar(t)}, map[string]any{Name(t): Scalar(t)}}
			if rapid.Bool().Draw(t, "plantunique") {
				m["uniqueItems"] = true
			}
			v = []any{"s", []any{"t"}, map[string]any{"k": nil}}
		case 6:
			// a value on an object that declares nothing else of a simple schema
			if rapid.Bool().Draw(t, "droptype") {
				delete(m, "type")
				delete(m, "format")
				delete(m, "items")
			}
			v = rapid.SampledFrom([]any{map[string]any{"k": Number(1)}, []any{Number(1), "a"}}).Draw(t, "plantedcontainer")
		case 0:
			v = []any{nil}
		case 1:
			v = []any{[]any{nil, Scalar(t)}, Scalar(t)}
		case 2:
			v = map[string]any{Name(t): nil, "items": Scalar(t)}
		default:
			v = Value(t, 6)
		}
		if items, hasItems := m["items"].(map[string]any); hasItems && rapid.Bool().Draw(t, "nullableitems") {
			// items that admit null (the go-openapi reading of "nullable"/"x-nullable"), below a value that may hold nulls
			items["nullable"] = true
			items["x-nullable"] = true
			if rapid.Bool().Draw(t, "nullinarray") {
				v = []any{nil, Scalar(t)}
			}
		}
		m[rapid.SampledFrom([]string{"default", "default", "example"}).Draw(t, "plantedkey")] = v
		return kind, c.deep + 1, true
	case "respell-duplicate-number":
		// append to an array of numbers one of its elements under another spelling (1 -> 1.0, 10 -> 1e+01):
		// equal JSON values, so e.g. an enum (which must hold unique items) now has a duplicate
		var numArrays []slot
		for _, c := range slots {
			if a, isArr := c.get().([]any); isArr {
				for _, e := range a {
					if _, isNum := e.(json.Number); isNum {
						numArrays = append(numArrays, c)
						break
					}
				}
			}
		}
		if len(numArrays) == 0 {
			return kind, 0, false
		}
		c := PickUniform(t, numArrays, "numarray")
		a := c.get().([]any)
		for _, e := range a {
			if n, isNum := e.(json.Number); isNum {
				var el json.Number
				if !strings.ContainsAny(string(n), ".eE") {
					el = json.Number(string(n) + ".0")
				} else if f, err := n.Float64(); err == nil {
					el = json.Number(strconv.FormatFloat(f, 'e', -1, 64))
				} else {
					continue
				}
				c.set(append(append([]any{}, a...), el))
				return kind, c.deep, true
			}
		}
		return kind, c.deep, false
	case "self-ref-definition":
		// a definition that is a $ref to itself (or to a definition that refers back), keeping its content as an allOf sibling
		defs, _ := doc["definitions"].(map[string]any)
		names := SortedKeys(defs)
		if len(names) == 0 {
			return kind, 0, false
		}
		a := PickUniform(t, names, "selfrefdef")
		b := PickUniform(t, names, "selfrefdef2")
		if rapid.IntRange(0, 2).Draw(t, "escapedselfref") == 0 {
			// a definition whose name needs JSON-pointer escaping, inheriting from itself
			nm := rapid.SampledFrom([]string{"a/b", "a~b", "x/y/z", "~"}).Draw(t, "escapedname")
			defs[nm] = map[string]any{"allOf": []any{map[string]any{"$ref": "#/definitions/" + escapePtr(nm)}, Clone(defs[a])}}
			return kind, 1, true
		}
		if rapid.Bool().Draw(t, "selfrefviaallof") {
			// the reference sits inside allOf: a definition inheriting from itself (or from a definition inheriting back)
			defs[a] = map[string]any{"allOf": []any{map[string]any{"$ref": "#/definitions/" + escapePtr(b)}, defs[a]}}
			if b != a {
				defs[b] = map[string]any{"allOf": []any{map[string]any{"$ref": "#/definitions/" + escapePtr(a)}, defs[b]}}
			}
			return kind, 1, true
		}
		defs[a] = map[string]any{"$ref": "#/definitions/" + escapePtr(b), "allOf": []any{defs[a]}}
		if b != a {
			defs[b] = map[string]any{"$ref": "#/definitions/" + escapePtr(a), "allOf": []any{defs[b]}}
		}
		return kind, 1, true
	case "hostile-name":
		// give a parameter / header / tag a hostile name (the value of a "name" member)
		var nameSlots []slot
		for _, c := range slots {
			if c.obj != nil && c.key == "name" {
				if _, isStr := c.get().(string); isStr {
					nameSlots = append(nameSlots, c)
				}
			}
		}
		if len(nameSlots) == 0 {
			return kind, 0, false
		}
		c := PickUniform(t, nameSlots, "nameslot")
		c.set(rapid.SampledFrom(HostileKeys).Draw(t, "hostilename"))
		return kind, c.deep, true
	case "duplicate":
		// duplicate an array element (the array is replaced in its parent)
		var arrSlots []slot
		for _, c := range slots {
			if a, isArr := c.get().([]any); isArr && len(a) > 0 {
				arrSlots = append(arrSlots, c)
			}
		}
		if len(arrSlots) == 0 {
			return kind, 0, false
		}
		c := PickUniform(t, arrSlots, "arrslot")
		a := c.get().([]any)
		el := Clone(PickUniform(t, a, "dupelem"))
		if n, isNum := el.(json.Number); isNum && rapid.Bool().Draw(t, "respell") {
			// the same number under another spelling (1 and 1.0 are equal JSON values)
			if !strings.ContainsAny(string(n), ".eE") {
				el = json.Number(string(n) + ".0")
			} else if f, err := n.Float64(); err == nil {
				el = json.Number(strconv.FormatFloat(f, 'e', -1, 64))
			}
		}
		c.set(append(append([]any{}, a...), el))
		return kind, c.deep, true
	case "retarget-ref", "ref-with-sibling":
		var refSlots []slot
		for _, c := range slots {
			if c.obj != nil && c.key == "$ref" {
				refSlots = append(refSlots, c)
			}
		}
		if kind == "ref-with-sibling" {
			if len(refSlots) == 0 {
				return kind, 0, false
			}
			c := PickUniform(t, refSlots, "refslot")
			c.obj[rapid.SampledFrom([]string{"description", "type", "in", "name", "required", "x-sibling"}).Draw(t, "sibling")] = rapid.SampledFrom([]any{"string", "sibling", true}).Draw(t, "siblingval")
			return kind, c.deep, true
		}
		target := rapid.SampledFrom([]string{"#/definitions/NoSuch", "#/nowhere", "#/definitions", "#/paths", "#/parameters/none", "#/responses/none", "#", "", "#/definitions/" + strconv.Itoa(rapid.IntRange(0, 3).Draw(t, "refnum")), "other.json#/definitions/X", "#/info"}).Draw(t, "reftarget")
		if len(refSlots) == 0 {
			// plant a reference object somewhere
			if _, isObj := s.get().(map[string]any); !isObj {
				return kind, s.deep, false
			}
			s.set(map[string]any{"$ref": target})
			return kind, s.deep, true
		}
		c := PickUniform(t, refSlots, "refslot")
		c.obj["$ref"] = target
		return kind, c.deep, true
	}
	return kind, s.deep, true
}
