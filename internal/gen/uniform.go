package gen

import "pgregory.net/rapid"

// UniformBits draws n unbiased bits. rapid's integer generators (and with
// them SampledFrom) favour small values — right for sizes, wrong for choosing
// among alternatives of equal standing; its booleans are fair. Everything
// still shrinks towards index 0.
func UniformBits(t *rapid.T, n int, label string) int {
	v := 0
	for i := 0; i < n; i++ {
		v <<= 1
		if rapid.Bool().Draw(t, label) {
			v |= 1
		}
	}
	return v
}

// UniformIndex chooses an index below n (n > 0) with equal probability (up to 2^-12).
func UniformIndex(t *rapid.T, n int, label string) int {
	bits := 12
	for 1<<bits < n*64 {
		bits++
	}
	return UniformBits(t, bits, label) % n
}

// PickUniform chooses an element of from with equal probability.
func PickUniform[T any](t *rapid.T, from []T, label string) T {
	return from[UniformIndex(t, len(from), label)]
}
