package gen

import (
	"encoding/json"
	"fmt"
	"strconv"
	"strings"

	"pgregory.net/rapid"
)

// SpecOpts tunes the Swagger 2.0 specification grammar.
type SpecOpts struct {
	// HostileNames draws definition / parameter / property names from the
	// adversarial pool (dots, empty-ish, suffix overlaps) instead of plain ones.
	HostileNames bool
	// MaxPaths bounds the number of paths (default 3).
	MaxPaths int
	// Rich forces at least one shared parameter, one shared response and one allOf chain.
	Rich bool
	// CaseTwinParams lets an operation declare two parameters in the same location whose names
	// differ only by letter case (distinct parameters in Swagger 2.0).
	CaseTwinParams bool
}

// OpInfo describes one generated operation.
type OpInfo struct {
	Path   string `json:"path"`
	Method string `json:"method"`
	ID     string `json:"id"`
	// HasBody / HasForm tell which kind of payload parameters the operation declares.
	HasBody bool `json:"has_body,omitempty"`
	HasForm bool `json:"has_form,omitempty"`
	// PathParamsAtPathLevel tells the path parameters are declared on the path item.
	PathParamsAtPathLevel bool `json:"path_params_at_path_level,omitempty"`
}

// SpecInfo is what the generator knows about the document it built.
type SpecInfo struct {
	Ops             []OpInfo            `json:"ops"`
	Placeholders    map[string][]string `json:"placeholders"` // path -> names
	Defs            []string            `json:"defs"`
	AllOfChildren   []string            `json:"allof_children"` // definitions built as allOf[$ref parent, own part]
	SharedParams    []string            `json:"shared_params"`
	SharedResponses []string            `json:"shared_responses"`
	UsedSharedParam bool                `json:"used_shared_param"`
	UsedSharedResp  bool                `json:"used_shared_resp"`
	Diamond         bool                `json:"diamond,omitempty"`
}

type specGen struct {
	t    *rapid.T
	o    SpecOpts
	info *SpecInfo
	doc  map[string]any
	nid  int
	// base index and shape of the previous path (sibling paths share a base)
	lastBase, lastShape int
}

var plainNames = []string{"id", "name", "tag", "kind", "size", "count", "label", "owner", "status", "note"}
var hostileNames = []string{"a.a", "x.x", "a.b", "b", "x", "default", "example", "items", "properties", "a", "", "0", "é", "allOf", "a b", "x-y"}
var defNames = []string{"Pet", "Tag", "Err", "Item", "Node", "Box"}
var hostileDefNames = []string{"a.a", "Pet", "x.x", "x", "default", "a b", "é", "Pet.x", "items", "a/b", "a~b"}

func (g *specGen) coin(label string, n int) bool {
	return rapid.IntRange(0, n-1).Draw(g.t, label) == 0
}

func (g *specGen) propName(label string) string {
	if g.o.HostileNames && !g.coin("plainname", 3) {
		return rapid.SampledFrom(hostileNames).Draw(g.t, label)
	}
	return rapid.SampledFrom(plainNames).Draw(g.t, label)
}

// SimpleType draws a simple (non-body) type description valid for parameters, headers and items.
func (g *specGen) simpleType(depth int) map[string]any {
	switch rapid.IntRange(0, 5).Draw(g.t, "ptype") {
	case 0:
		return map[string]any{"type": "integer", "format": rapid.SampledFrom([]string{"int32", "int64"}).Draw(g.t, "pifmt")}
	case 1:
		return map[string]any{"type": "number"}
	case 2:
		return map[string]any{"type": "boolean"}
	case 3:
		if depth > 0 {
			return map[string]any{"type": "array", "items": g.simpleType(depth - 1)}
		}
		return map[string]any{"type": "string"}
	default:
		d := map[string]any{"type": "string"}
		if g.coin("pfmt", 4) {
			d["format"] = rapid.SampledFrom([]string{"date", "uuid", "date-time"}).Draw(g.t, "psfmt")
		}
		return d
	}
}

// propSchema draws a property schema: scalar, array of scalars, or $ref to an earlier definition.
func (g *specGen) propSchema(earlier []string, depth int) map[string]any {
	switch rapid.IntRange(0, 7).Draw(g.t, "propkind") {
	case 0:
		if g.coin("intenum", 2) {
			return map[string]any{"type": "integer", "format": "int32", "enum": []any{Number(1), Number(2), Number(10)}}
		}
		return map[string]any{"type": "integer", "format": "int32"}
	case 1:
		if g.coin("numenum", 3) {
			return map[string]any{"type": "number", "enum": []any{json.Number("0.5"), Number(3)}}
		}
		return map[string]any{"type": "number"}
	case 2:
		return map[string]any{"type": "boolean"}
	case 3:
		return map[string]any{"type": "array", "items": map[string]any{"type": "string"}}
	case 4:
		if len(earlier) > 0 {
			return map[string]any{"$ref": "#/definitions/" + escapePtr(earlier[rapid.IntRange(0, len(earlier)-1).Draw(g.t, "refdef")])}
		}
		return map[string]any{"type": "string"}
	case 5:
		if depth > 0 {
			return g.objectSchema(earlier, depth-1, nil)
		}
		return map[string]any{"type": "string"}
	default:
		return map[string]any{"type": "string"}
	}
}

func escapePtr(s string) string {
	s = strings.ReplaceAll(s, "~", "~0")
	s = strings.ReplaceAll(s, "/", "~1")
	s = strings.ReplaceAll(s, "%", "%25")
	s = strings.ReplaceAll(s, " ", "%20")
	return s
}

// objectSchema draws an object schema whose property names avoid the names in taken.
func (g *specGen) objectSchema(earlier []string, depth int, taken map[string]bool) map[string]any {
	props := map[string]any{}
	n := rapid.IntRange(1, 3).Draw(g.t, "nprops")
	var names []string
	for i := 0; i < n; i++ {
		nm := g.propName("propname")
		if taken[nm] {
			continue
		}
		if _, dup := props[nm]; dup {
			continue
		}
		props[nm] = g.propSchema(earlier, depth)
		names = append(names, nm)
	}
	s := map[string]any{"type": "object", "properties": props}
	if len(names) > 0 && g.coin("withrequired", 2) {
		req := []any{names[0]}
		if len(names) > 1 && g.coin("req2", 2) {
			req = append(req, names[1])
		}
		s["required"] = req
	}
	if g.coin("addlprops", 4) {
		s["additionalProperties"] = g.coin("addlpropsval", 2)
	}
	if taken != nil {
		for _, nm := range names {
			taken[nm] = true
		}
	}
	return s
}

// Spec draws a valid Swagger 2.0 document together with what the generator knows about it.
func Spec(t *rapid.T, o SpecOpts) (map[string]any, *SpecInfo) {
	g := &specGen{t: t, o: o, info: &SpecInfo{Placeholders: map[string][]string{}}}
	if g.o.MaxPaths <= 0 {
		g.o.MaxPaths = 3
	}
	doc := map[string]any{
		"swagger": "2.0",
		"info":    map[string]any{"title": "generated", "version": "1.0"},
	}
	g.doc = doc
	if g.coin("basepath", 3) {
		doc["basePath"] = "/v1"
	}
	if g.coin("produces", 2) {
		doc["produces"] = []any{"application/json"}
	}
	// definitions
	defs := map[string]any{}
	ndefs := rapid.IntRange(1, 4).Draw(t, "ndefs")
	pool := defNames
	if o.HostileNames {
		pool = hostileDefNames
	}
	propsOf := map[string]map[string]bool{} // all property names visible in a definition (own + inherited)
	for i := 0; i < ndefs; i++ {
		name := pool[(rapid.IntRange(0, len(pool)-1).Draw(t, "defname")+i)%len(pool)]
		if _, dup := defs[name]; dup {
			continue
		}
		earlier := append([]string{}, g.info.Defs...)
		if len(earlier) > 0 && (g.coin("allofchild", 3) || (o.Rich && len(g.info.AllOfChildren) == 0)) {
			parent := earlier[rapid.IntRange(0, len(earlier)-1).Draw(t, "parent")]
			taken := map[string]bool{}
			for k := range propsOf[parent] {
				taken[k] = true
			}
			own := g.objectSchema(earlier, 1, taken)
			delete(own, "required") // keep the rule 'required names are defined' trivially true for the own part
			defs[name] = map[string]any{"allOf": []any{map[string]any{"$ref": "#/definitions/" + escapePtr(parent)}, own}}
			propsOf[name] = taken
			g.info.AllOfChildren = append(g.info.AllOfChildren, name)
		} else {
			taken := map[string]bool{}
			defs[name] = g.objectSchema(earlier, 1, taken)
			propsOf[name] = taken
		}
		g.info.Defs = append(g.info.Defs, name)
	}
	// diamond inheritance: two definitions inheriting from the same parent, and a third inheriting from both
	if len(g.info.Defs) > 0 && (g.coin("diamond", 4) || o.Rich && g.coin("richdiamond", 2)) {
		base := g.info.Defs[rapid.IntRange(0, len(g.info.Defs)-1).Draw(t, "diamondbase")]
		if _, clash := defs["DiaLeft"]; !clash {
			ref := func(n string) map[string]any { return map[string]any{"$ref": "#/definitions/" + escapePtr(n)} }
			defs["DiaLeft"] = map[string]any{"allOf": []any{ref(base), map[string]any{"type": "object", "properties": map[string]any{"diaLeftOwn": map[string]any{"type": "string"}}}}}
			defs["DiaRight"] = map[string]any{"allOf": []any{ref(base), map[string]any{"type": "object", "properties": map[string]any{"diaRightOwn": map[string]any{"type": "integer", "format": "int32"}}}}}
			defs["DiaBottom"] = map[string]any{"allOf": []any{ref("DiaLeft"), ref("DiaRight")}}
			g.info.Diamond = true
		}
	}
	doc["definitions"] = defs

	// shared parameters
	shared := map[string]any{}
	nshared := rapid.IntRange(0, 2).Draw(t, "nsharedparams")
	if o.Rich && nshared == 0 {
		nshared = 1
	}
	for i := 0; i < nshared; i++ {
		key := "sp" + strconv.Itoa(i)
		p := g.simpleType(1)
		p["name"] = "shared" + strconv.Itoa(i)
		p["in"] = rapid.SampledFrom([]string{"query", "header"}).Draw(t, "sharedin")
		shared[key] = p
		g.info.SharedParams = append(g.info.SharedParams, key)
	}
	if len(shared) > 0 {
		doc["parameters"] = shared
	}
	// shared responses
	sresp := map[string]any{}
	nsr := rapid.IntRange(0, 2).Draw(t, "nsharedresp")
	if o.Rich && nsr == 0 {
		nsr = 1
	}
	for i := 0; i < nsr; i++ {
		key := "sr" + strconv.Itoa(i)
		sresp[key] = g.response()
		g.info.SharedResponses = append(g.info.SharedResponses, key)
	}
	if len(sresp) > 0 {
		doc["responses"] = sresp
	}

	// paths
	paths := map[string]any{}
	npaths := rapid.IntRange(1, g.o.MaxPaths).Draw(t, "npaths")
	for i := 0; i < npaths; i++ {
		tpl, holders := g.pathTemplate(i)
		if _, dup := paths[tpl]; dup {
			continue
		}
		g.info.Placeholders[tpl] = holders
		item := map[string]any{}
		atPathLevel := len(holders) > 0 && g.coin("pathlevelparams", 3)
		if atPathLevel {
			var ps []any
			for _, h := range holders {
				ps = append(ps, g.pathParam(h))
			}
			item["parameters"] = ps
		}
		methods := []string{"get", "post", "put", "delete"}
		nm := rapid.IntRange(1, 2).Draw(t, "nmethods")
		start := rapid.IntRange(0, 3).Draw(t, "method0")
		for j := 0; j < nm; j++ {
			m := methods[(start+j)%4]
			op, oi := g.operation(tpl, m, holders, atPathLevel)
			item[m] = op
			g.info.Ops = append(g.info.Ops, oi)
		}
		paths[tpl] = item
		// a twin template that differs only in the names of its placeholders, served by other methods: path
		// overlap is a per-method notion, so the two do not overlap
		if len(holders) > 0 && UniformIndex(t, 4, "twinpath") == 0 {
			twin, twinHolders := tpl, make([]string, len(holders))
			for k, h := range holders {
				twinHolders[k] = h + "2"
				twin = strings.Replace(twin, "{"+h+"}", "{"+h+"2}", 1)
			}
			if _, dup := paths[twin]; !dup {
				g.info.Placeholders[twin] = twinHolders
				twinItem := map[string]any{}
				for j := nm; j < 4 && j < nm+1+UniformIndex(t, 2, "twinmethods"); j++ {
					m := methods[(start+j)%4]
					op, oi := g.operation(twin, m, twinHolders, false)
					twinItem[m] = op
					g.info.Ops = append(g.info.Ops, oi)
				}
				paths[twin] = twinItem
			}
		}
	}
	doc["paths"] = paths
	return doc, g.info
}

// pathTemplate builds the i-th path: distinct first segment guarantees no overlap between paths.
func (g *specGen) pathTemplate(i int) (string, []string) {
	base := "/r" + strconv.Itoa(i)
	shape := rapid.IntRange(0, 4).Draw(g.t, "pathshape")
	// sibling paths: reuse the base of the previous path with another shape. The five shapes keep different
	// forms once their placeholders are stripped ("", X, X/sub/X, X-X, x/X/), so siblings never overlap.
	if i > 0 && g.lastShape != shape && rapid.IntRange(0, 1).Draw(g.t, "siblingpath") == 0 {
		base = "/r" + strconv.Itoa(g.lastBase)
	} else {
		g.lastBase = i
	}
	g.lastShape = shape
	switch shape {
	case 0:
		return base, nil
	case 1:
		return base + "/{id}", []string{"id"}
	case 2:
		return base + "/{id}/sub/{sub}", []string{"id", "sub"}
	case 3:
		return base + "/{a}-{b}", []string{"a", "b"} // two placeholders in one segment
	default:
		return base + "/x/{key}/", []string{"key"}
	}
}

func (g *specGen) pathParam(name string) map[string]any {
	p := map[string]any{"name": name, "in": "path", "required": true}
	if g.coin("pathparamint", 2) {
		p["type"] = "integer"
		p["format"] = "int64"
	} else {
		p["type"] = "string"
	}
	return p
}

func (g *specGen) defRef() map[string]any {
	d := g.info.Defs[rapid.IntRange(0, len(g.info.Defs)-1).Draw(g.t, "defref")]
	return map[string]any{"$ref": "#/definitions/" + escapePtr(d)}
}

func (g *specGen) bodySchema() map[string]any {
	switch rapid.IntRange(0, 3).Draw(g.t, "bodyschema") {
	case 0:
		return map[string]any{"type": "array", "items": g.defRef()}
	case 1:
		return g.objectSchema(g.info.Defs, 1, nil)
	default:
		return g.defRef()
	}
}

func (g *specGen) response() map[string]any {
	r := map[string]any{"description": "a response"}
	if g.coin("respschema", 2) {
		r["schema"] = g.bodySchema()
	}
	if g.coin("respheaders", 3) {
		hs := map[string]any{}
		n := rapid.IntRange(1, 2).Draw(g.t, "nheaders")
		for i := 0; i < n; i++ {
			hs["X-H"+strconv.Itoa(i)] = g.simpleType(2)
		}
		r["headers"] = hs
	}
	return r
}

func (g *specGen) operation(path, method string, holders []string, pathLevel bool) (map[string]any, OpInfo) {
	t := g.t
	g.nid++
	oi := OpInfo{Path: path, Method: method, ID: fmt.Sprintf("op%d", g.nid), PathParamsAtPathLevel: pathLevel}
	op := map[string]any{"operationId": oi.ID}
	var params []any
	if !pathLevel {
		for _, h := range holders {
			params = append(params, g.pathParam(h))
		}
	}
	used := map[string]bool{}
	nq := rapid.IntRange(0, 2).Draw(t, "nquery")
	for i := 0; i < nq; i++ {
		nm := g.propName("paramname")
		in := rapid.SampledFrom([]string{"query", "header"}).Draw(t, "paramin")
		if used[in+"#"+nm] || nm == "" {
			continue
		}
		used[in+"#"+nm] = true
		p := g.simpleType(2)
		p["name"], p["in"] = nm, in
		if g.coin("paramrequired", 3) {
			p["required"] = true
		}
		params = append(params, p)
		if twin := swapCase(nm); g.o.CaseTwinParams && twin != nm && !used[in+"#"+twin] && g.coin("casetwin", 3) {
			used[in+"#"+twin] = true
			q := g.simpleType(2)
			q["name"], q["in"] = twin, in
			params = append(params, q)
		}
	}
	if len(g.info.SharedParams) > 0 && (g.coin("useshared", 2) || (g.o.Rich && !g.info.UsedSharedParam)) {
		k := g.info.SharedParams[rapid.IntRange(0, len(g.info.SharedParams)-1).Draw(t, "sharedidx")]
		params = append(params, map[string]any{"$ref": "#/parameters/" + k})
		g.info.UsedSharedParam = true
	}
	if method != "get" && method != "delete" {
		switch rapid.IntRange(0, 2).Draw(t, "payload") {
		case 0:
			bname := "body"
			if g.o.HostileNames {
				if n := g.propName("bodyname"); n != "" {
					bname = n
				}
			}
			params = append(params, map[string]any{"name": bname, "in": "body", "required": true, "schema": g.bodySchema()})
			oi.HasBody = true
		case 1:
			p := g.simpleType(1)
			p["name"], p["in"] = "field", "formData"
			params = append(params, p)
			op["consumes"] = []any{"application/x-www-form-urlencoded"}
			oi.HasForm = true
		}
	}
	if len(params) > 0 {
		op["parameters"] = params
	}
	resps := map[string]any{}
	if len(g.info.SharedResponses) > 0 && (g.coin("usesharedresp", 2) || (g.o.Rich && !g.info.UsedSharedResp)) {
		k := g.info.SharedResponses[rapid.IntRange(0, len(g.info.SharedResponses)-1).Draw(t, "sharedrespidx")]
		resps["200"] = map[string]any{"$ref": "#/responses/" + k}
		g.info.UsedSharedResp = true
	} else {
		resps["200"] = g.response()
	}
	if g.coin("defaultresp", 3) {
		resps["default"] = g.response()
	}
	if g.coin("resp404", 4) {
		resps["404"] = map[string]any{"description": "not found"}
	}
	op["responses"] = resps
	return op, oi
}

// Number is a convenience constructor for JSON numbers in documents.
func Number(i int) json.Number { return json.Number(strconv.Itoa(i)) }

// swapCase flips the case of every ASCII letter.
func swapCase(s string) string {
	b := []byte(s)
	for i, c := range b {
		switch {
		case c >= 'a' && c <= 'z':
			b[i] = c - 32
		case c >= 'A' && c <= 'Z':
			b[i] = c + 32
		}
	}
	return string(b)
}
