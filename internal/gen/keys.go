package gen

import "strings"

// KeyNeedsEscape tells whether some properties / patternProperties key of the
// schema contains a character that JSON must escape (go-openapi/spec v0.21.0
// writes such keys verbatim when it re-marshals a schema during $ref expansion).
func KeyNeedsEscape(v any) bool {
	switch x := v.(type) {
	case map[string]any:
		for k, w := range x {
			if k == "properties" || k == "patternProperties" {
				if m, ok := w.(map[string]any); ok {
					for name := range m {
						if strings.ContainsAny(name, "\\\"") || strings.IndexFunc(name, func(r rune) bool { return r < 0x20 }) >= 0 {
							return true
						}
					}
				}
			}
			if KeyNeedsEscape(w) {
				return true
			}
		}
	case []any:
		for _, w := range x {
			if KeyNeedsEscape(w) {
				return true
			}
		}
	}
	return false
}

// DependencyMarshalPanic recognises the panic caused by go-openapi/spec v0.21.0
// re-marshalling a schema whose properties/patternProperties key needs JSON
// escaping during $ref expansion (known finding KF-spec-marshal-unescaped-key,
// claimed under C01/C06; other checks count such cases as excluded).
func DependencyMarshalPanic(msg string, schemaRaw any) bool {
	return strings.Contains(msg, "spec.OrderSchemaItems") && KeyNeedsEscape(schemaRaw)
}
