package gen

import "strings"

// KeyNeedsEscape tells whether some properties / patternProperties key of the
// schema contains a character that JSON must escape (go-openapi/spec v0.21.0
// writes such keys verbatim when it re-marshals a schema during $ref expansion).
func KeyNeedsEscape(v any) bool {
	switch x := v.(type) {
	case map[string]any:
		for k, w := range x {
			if k == "properties" || k == "patternProperties" {
				if m, ok := w.(map[string]any); ok {
					for name := range m {
						if strings.ContainsAny(name, "\\\"") || strings.IndexFunc(name, func(r rune) bool { return r < 0x20 }) >= 0 {
							return true
						}
					}
				}
			}
			if KeyNeedsEscape(w) {
				return true
			}
		}
	case []any:
		for _, w := range x {
			if KeyNeedsEscape(w) {
				return true
			}
		}
	}
	return false
}

