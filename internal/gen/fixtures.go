package gen

import (
	"encoding/json"
	"os"
	"path/filepath"
	"sort"
	"strings"
	"sync"

	"github.com/go-openapi/loads"
	"pgregory.net/rapid"
)

var (
	fixtureOnce  sync.Once
	fixtureTexts []string // raw JSON of every small loadable fixture
	fixtureNames []string
)

func loadFixtures() {
	var files []string
	for _, pat := range []string{"/repo/fixtures/validation/*.json", "/repo/fixtures/validation/*.yaml", "/repo/fixtures/validation/default/*.json", "/repo/fixtures/validation/example/*.json",
		"/repo/fixtures/bugs/*/*.json", "/repo/fixtures/bugs/*/*.yaml", "/repo/fixtures/bugs/*/*.yml", "/repo/fixtures/petstore/*.json"} {
		m, _ := filepath.Glob(pat)
		files = append(files, m...)
	}
	sort.Strings(files)
	for _, f := range files {
		st, err := os.Stat(f)
		if err != nil || st.Size() > 30000 || strings.Contains(f, "donotload") || strings.Contains(f, "expected_messages") {
			continue
		}
		b, err := os.ReadFile(f)
		if err != nil {
			continue
		}
		func() {
			defer func() { _ = recover() }()
			doc, err := loads.Analyzed(json.RawMessage(b), "")
			if err != nil || doc == nil {
				return
			}
			raw := doc.Raw()
			var probe map[string]any
			if json.Unmarshal(raw, &probe) != nil || probe == nil {
				return
			}
			fixtureTexts = append(fixtureTexts, string(raw))
			fixtureNames = append(fixtureNames, strings.TrimPrefix(f, "/repo/fixtures/"))
		}()
	}
}

// FixtureCount returns the number of usable repository fixtures.
func FixtureCount() int {
	fixtureOnce.Do(loadFixtures)
	return len(fixtureTexts)
}

// FixtureDoc draws one of the repository's own specification fixtures (small, loadable ones) as a decoded document.
func FixtureDoc(t *rapid.T) (map[string]any, string, bool) {
	fixtureOnce.Do(loadFixtures)
	if len(fixtureTexts) == 0 {
		return nil, "", false
	}
	i := rapid.IntRange(0, len(fixtureTexts)-1).Draw(t, "fixture")
	d := json.NewDecoder(strings.NewReader(fixtureTexts[i]))
	d.UseNumber()
	var doc map[string]any
	if d.Decode(&doc) != nil || doc == nil {
		return nil, "", false
	}
	return doc, fixtureNames[i], true
}
