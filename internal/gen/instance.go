package gen

import (
	"encoding/json"
	"math"
	"math/big"
	"regexp"
	"strconv"
	"strings"
	"unicode/utf8"

	"pgregory.net/rapid"
)

// InstanceFor draws an instance for a schema document: constructive (a value
// intended to satisfy the schema), then with probability 1/2 one or two local
// perturbations; one case in four is an unrelated random value.
func InstanceFor(t *rapid.T, doc map[string]any, budget int) any {
	switch rapid.IntRange(0, 7).Draw(t, "instmode") {
	case 0, 1:
		return Value(t, budget)
	case 2, 3, 4:
		ig := &instGen{t: t, root: doc}
		return ig.satisfy(doc, 0)
	default:
		ig := &instGen{t: t, root: doc}
		v := ig.satisfy(doc, 0)
		n := rapid.IntRange(1, 2).Draw(t, "nperturb")
		for i := 0; i < n; i++ {
			v = Perturb(t, v)
		}
		return v
	}
}

// Satisfying draws a value intended to satisfy the schema (best effort).
func Satisfying(t *rapid.T, doc map[string]any) any {
	ig := &instGen{t: t, root: doc}
	return ig.satisfy(doc, 0)
}

type instGen struct {
	t    *rapid.T
	root map[string]any
}

func (g *instGen) resolve(s map[string]any) map[string]any {
	for i := 0; i < 8; i++ {
		ref, ok := s["$ref"].(string)
		if !ok {
			return s
		}
		const p = "#/definitions/"
		if !strings.HasPrefix(ref, p) {
			return map[string]any{}
		}
		defs, _ := g.root["definitions"].(map[string]any)
		tgt, ok := defs[ref[len(p):]].(map[string]any)
		if !ok {
			return map[string]any{}
		}
		s = tgt
	}
	return s
}

func ratOf(v any) *big.Rat {
	n, ok := v.(json.Number)
	if !ok {
		return nil
	}
	r, ok := new(big.Rat).SetString(string(n))
	if !ok {
		return nil
	}
	return r
}

// ratText renders a rational with a finite decimal expansion as a JSON literal
// (falls back to a rounded literal otherwise).
func ratText(r *big.Rat) json.Number {
	n := ratText0(r)
	if SigDigits(string(n)) > 15 {
		f, _ := r.Float64()
		if math.IsInf(f, 0) || math.IsNaN(f) {
			if r.Sign() < 0 {
				return json.Number("-1e308")
			}
			return json.Number("1e308")
		}
		n = json.Number(strconv.FormatFloat(f, 'g', 15, 64))
	}
	return n
}

// SigDigits counts the significant decimal digits of a JSON number literal.
func SigDigits(lit string) int {
	if i := strings.IndexAny(lit, "eE"); i >= 0 {
		lit = lit[:i]
	}
	lit = strings.TrimLeft(lit, "+-")
	hasPoint := strings.Contains(lit, ".")
	digits := strings.ReplaceAll(lit, ".", "")
	digits = strings.TrimLeft(digits, "0")
	if !hasPoint {
		// trailing zeros of an integer literal are not significant for our purpose (exactness in float64)
		digits = strings.TrimRight(digits, "0")
	} else {
		digits = strings.TrimRight(digits, "0")
	}
	return len(digits)
}

// NumbersInDomain tells whether every number of a decoded JSON value has at most
// 15 significant digits and magnitude below 2^53.
func NumbersInDomain(v any) bool {
	switch x := v.(type) {
	case json.Number:
		if SigDigits(string(x)) > 15 {
			return false
		}
		r, ok := new(big.Rat).SetString(string(x))
		if !ok {
			return false
		}
		lim := new(big.Rat).SetInt64(1 << 53)
		return r.Cmp(lim) < 0 && r.Cmp(new(big.Rat).Neg(lim)) > 0
	case []any:
		for _, w := range x {
			if !NumbersInDomain(w) {
				return false
			}
		}
	case map[string]any:
		for _, w := range x {
			if !NumbersInDomain(w) {
				return false
			}
		}
	}
	return true
}

func ratText0(r *big.Rat) json.Number {
	if r.IsInt() {
		return json.Number(r.Num().String())
	}
	for d := 1; d <= 12; d++ {
		s := r.FloatString(d)
		back, _ := new(big.Rat).SetString(s)
		if back != nil && back.Cmp(r) == 0 {
			s = strings.TrimRight(s, "0")
			return json.Number(strings.TrimSuffix(s, "."))
		}
	}
	f, _ := r.Float64()
	if math.IsInf(f, 0) || math.IsNaN(f) {
		return json.Number("1e308")
	}
	return json.Number(strconv.FormatFloat(f, 'f', 6, 64))
}

func intOf(v any, def int) int {
	r := ratOf(v)
	if r == nil || !r.IsInt() || !r.Num().IsInt64() {
		return def
	}
	n := r.Num().Int64()
	if n < 0 {
		return 0
	}
	if n > 6 {
		return 6
	}
	return int(n)
}

func (g *instGen) satisfy(schema any, depth int) any {
	t := g.t
	s, ok := schema.(map[string]any)
	if !ok || depth > 8 {
		return Scalar(t)
	}
	s = g.resolve(s)
	if en, ok := s["enum"].([]any); ok && len(en) > 0 && rapid.IntRange(0, 9).Draw(t, "useenum") > 0 {
		return Clone(en[rapid.IntRange(0, len(en)-1).Draw(t, "enumidx")])
	}
	// composition: follow one branch for guidance when the node itself says little
	for _, kw := range []string{"allOf", "anyOf", "oneOf"} {
		if subs, ok := s[kw].([]any); ok && len(subs) > 0 && s["type"] == nil && s["properties"] == nil && s["items"] == nil {
			if rapid.IntRange(0, 3).Draw(t, "followcomp") > 0 {
				return g.satisfy(subs[rapid.IntRange(0, len(subs)-1).Draw(t, "compidx")], depth+1)
			}
		}
	}
	kind := g.targetKind(s)
	switch kind {
	case "null":
		return nil
	case "boolean":
		return rapid.Bool().Draw(t, "boolv")
	case "integer", "number":
		return g.number(s, kind == "integer")
	case "string":
		return g.str(s)
	case "array":
		return g.array(s, depth)
	case "object":
		return g.object(s, depth)
	}
	return Scalar(t)
}

func (g *instGen) targetKind(s map[string]any) string {
	t := g.t
	switch ty := s["type"].(type) {
	case string:
		return ty
	case []any:
		if len(ty) > 0 {
			if k, ok := ty[rapid.IntRange(0, len(ty)-1).Draw(t, "typeidx")].(string); ok {
				return k
			}
		}
	}
	var cands []string
	has := func(keys ...string) bool {
		for _, k := range keys {
			if _, ok := s[k]; ok {
				return true
			}
		}
		return false
	}
	if has("multipleOf", "maximum", "minimum") {
		cands = append(cands, "number")
	}
	if has("minLength", "maxLength", "pattern", "format") {
		cands = append(cands, "string")
	}
	if has("items", "additionalItems", "minItems", "maxItems", "uniqueItems") {
		cands = append(cands, "array")
	}
	if has("properties", "patternProperties", "additionalProperties", "required", "minProperties", "maxProperties", "dependencies") {
		cands = append(cands, "object")
	}
	if len(cands) == 0 || rapid.IntRange(0, 5).Draw(t, "offkind") == 0 {
		return rapid.SampledFrom(jsonTypes).Draw(t, "anykind")
	}
	return cands[rapid.IntRange(0, len(cands)-1).Draw(t, "candkind")]
}

func (g *instGen) number(s map[string]any, integer bool) any {
	t := g.t
	mo := ratOf(s["multipleOf"])
	mn, mx := ratOf(s["minimum"]), ratOf(s["maximum"])
	if mo != nil && mo.Sign() > 0 {
		k := int64(rapid.IntRange(-3, 8).Draw(t, "multk"))
		if mn != nil {
			// smallest multiple >= mn, plus a small offset
			q := new(big.Rat).Quo(mn, mo)
			fl := new(big.Int).Div(q.Num(), q.Denom()) // floor for positive denominators
			if fl.IsInt64() {
				k = fl.Int64() + int64(rapid.IntRange(0, 2).Draw(t, "multoff"))
			}
		} else if mx != nil {
			q := new(big.Rat).Quo(mx, mo)
			fl := new(big.Int).Div(q.Num(), q.Denom())
			if fl.IsInt64() {
				k = fl.Int64() - int64(rapid.IntRange(0, 2).Draw(t, "multoff"))
			}
		}
		v := new(big.Rat).Mul(mo, new(big.Rat).SetInt64(k))
		return ratText(v)
	}
	var v *big.Rat
	switch {
	case mn != nil && mx != nil && mn.Cmp(mx) <= 0:
		switch rapid.IntRange(0, 3).Draw(t, "between") {
		case 0:
			v = mn
		case 1:
			v = mx
		default:
			v = new(big.Rat).Quo(new(big.Rat).Add(mn, mx), big.NewRat(2, 1))
		}
	case mn != nil:
		v = new(big.Rat).Add(mn, big.NewRat(int64(rapid.IntRange(0, 2).Draw(t, "abovemin")), 1))
	case mx != nil:
		v = new(big.Rat).Sub(mx, big.NewRat(int64(rapid.IntRange(0, 2).Draw(t, "belowmax")), 1))
	default:
		n := Num(t)
		v = ratOf(n)
	}
	if integer && !v.IsInt() {
		fl := new(big.Int).Div(v.Num(), v.Denom())
		v = new(big.Rat).SetInt(fl)
		if mn != nil && v.Cmp(mn) < 0 {
			v.Add(v, big.NewRat(1, 1))
		}
	}
	return ratText(v)
}

var patCache = map[string]*regexp.Regexp{}

func (g *instGen) str(s map[string]any) any {
	t := g.t
	minL, maxL := 0, 1<<30
	if r := ratOf(s["minLength"]); r != nil && r.IsInt() && r.Num().IsInt64() {
		minL = int(r.Num().Int64())
	}
	if r := ratOf(s["maxLength"]); r != nil && r.IsInt() && r.Num().IsInt64() {
		maxL = int(r.Num().Int64())
	}
	var re *regexp.Regexp
	if p, ok := s["pattern"].(string); ok {
		if c, ok := patCache[p]; ok {
			re = c
		} else if c, err := regexp.Compile(p); err == nil {
			re = c
			patCache[p] = c
		}
	}
	var cands []string
	for _, c := range Strings {
		n := utf8.RuneCountInString(c)
		if n < minL || n > maxL {
			continue
		}
		if re != nil && !re.MatchString(c) {
			continue
		}
		cands = append(cands, c)
	}
	if f, ok := s["format"].(string); ok {
		if fs := FormatSamples[f]; len(fs) > 0 && rapid.IntRange(0, 3).Draw(t, "fmtsample") > 0 {
			return rapid.SampledFrom(fs).Draw(t, "fmtstr")
		}
	}
	if len(cands) == 0 {
		return Str(t)
	}
	return rapid.SampledFrom(cands).Draw(t, "candstr")
}

// FormatSamples gives strings satisfying the formats used by the generators.
var FormatSamples = map[string][]string{
	"date":       {"2020-01-01", "1999-12-31"},
	"uuid":       {"a8098c1a-f86e-11da-bd1a-00112444be1e"},
	"email":      {"a@b.co"},
	"evenlen":    {"", "ab", "abcd", "日本"},
	"starts-a":   {"a", "ab", "abc", "aaa"},
	"date-time":  {"2020-01-01T00:00:00Z"},
	"never":      {},
	"always":     {"x"},
	"upper-case": {"A", "AB"},
}

func (g *instGen) array(s map[string]any, depth int) any {
	t := g.t
	minN := intOf(s["minItems"], 0)
	maxN := 6
	if _, ok := s["maxItems"]; ok {
		maxN = intOf(s["maxItems"], 6)
	}
	tuple, isTuple := s["items"].([]any)
	n := minN + rapid.IntRange(0, 2).Draw(t, "extraitems")
	if isTuple && rapid.IntRange(0, 2).Draw(t, "matchtuple") > 0 {
		n = len(tuple) + rapid.IntRange(-1, 2).Draw(t, "tupleoff")
	}
	if n > maxN {
		n = maxN
	}
	if n < 0 {
		n = 0
	}
	out := make([]any, 0, n)
	for i := 0; i < n; i++ {
		switch {
		case isTuple && i < len(tuple):
			out = append(out, g.satisfy(tuple[i], depth+1))
		case isTuple:
			if ai, ok := s["additionalItems"].(map[string]any); ok {
				out = append(out, g.satisfy(ai, depth+1))
			} else {
				out = append(out, Scalar(t))
			}
		default:
			if it, ok := s["items"].(map[string]any); ok {
				out = append(out, g.satisfy(it, depth+1))
			} else {
				out = append(out, Scalar(t))
			}
		}
	}
	return out
}

func (g *instGen) object(s map[string]any, depth int) any {
	t := g.t
	out := map[string]any{}
	props, _ := s["properties"].(map[string]any)
	if req, ok := s["required"].([]any); ok {
		for _, r := range req {
			if name, ok := r.(string); ok {
				if ps, ok := props[name]; ok {
					out[name] = g.satisfy(ps, depth+1)
				} else {
					out[name] = g.forUndeclared(s, name, depth)
				}
			}
		}
	}
	for _, name := range SortedKeys(props) {
		if _, done := out[name]; done {
			continue
		}
		if rapid.IntRange(0, 2).Draw(t, "withprop") > 0 {
			out[name] = g.satisfy(props[name], depth+1)
		}
	}
	extra := rapid.IntRange(0, 2).Draw(t, "extraprops")
	if ap, ok := s["additionalProperties"].(bool); ok && !ap && rapid.IntRange(0, 3).Draw(t, "respectaddl") > 0 {
		extra = 0
	}
	minP := intOf(s["minProperties"], 0)
	for i := 0; i < extra || len(out) < minP; i++ {
		if i > 8 {
			break
		}
		name := Name(t)
		if _, done := out[name]; done {
			continue
		}
		if ps, ok := props[name]; ok {
			out[name] = g.satisfy(ps, depth+1)
			continue
		}
		out[name] = g.forUndeclared(s, name, depth)
	}
	// dependencies (property form): add what is asked for
	if deps, ok := s["dependencies"].(map[string]any); ok {
		for _, k := range SortedKeys(deps) {
			if _, present := out[k]; !present {
				continue
			}
			if list, ok := deps[k].([]any); ok && rapid.IntRange(0, 3).Draw(t, "satdeps") > 0 {
				for _, r := range list {
					if name, ok := r.(string); ok {
						if _, done := out[name]; !done {
							if ps, ok := props[name]; ok {
								out[name] = g.satisfy(ps, depth+1)
							} else {
								out[name] = g.forUndeclared(s, name, depth)
							}
						}
					}
				}
			}
		}
	}
	return out
}

func (g *instGen) forUndeclared(s map[string]any, name string, depth int) any {
	if pp, ok := s["patternProperties"].(map[string]any); ok {
		for _, p := range SortedKeys(pp) {
			if re, err := regexp.Compile(p); err == nil && re.MatchString(name) {
				return g.satisfy(pp[p], depth+1)
			}
		}
	}
	if ap, ok := s["additionalProperties"].(map[string]any); ok {
		return g.satisfy(ap, depth+1)
	}
	return Value(g.t, 3)
}

// Perturb applies one local change somewhere in v.
func Perturb(t *rapid.T, v any) any {
	// walk down with some probability
	switch x := v.(type) {
	case []any:
		if len(x) > 0 && rapid.IntRange(0, 2).Draw(t, "descendarr") > 0 {
			i := rapid.IntRange(0, len(x)-1).Draw(t, "descendidx")
			out := append([]any(nil), x...)
			out[i] = Perturb(t, x[i])
			return out
		}
	case map[string]any:
		if len(x) > 0 && rapid.IntRange(0, 2).Draw(t, "descendobj") > 0 {
			keys := SortedKeys(x)
			k := keys[rapid.IntRange(0, len(keys)-1).Draw(t, "descendkey")]
			out := map[string]any{}
			for kk, vv := range x {
				out[kk] = vv
			}
			out[k] = Perturb(t, x[k])
			return out
		}
	}
	switch x := v.(type) {
	case json.Number:
		r := ratOf(x)
		if r == nil {
			return Scalar(t)
		}
		switch rapid.IntRange(0, 5).Draw(t, "numperturb") {
		case 0:
			return ratText(new(big.Rat).Add(r, big.NewRat(1, 1)))
		case 1:
			return ratText(new(big.Rat).Sub(r, big.NewRat(1, 1)))
		case 2:
			return ratText(new(big.Rat).Add(r, big.NewRat(1, 2)))
		case 3:
			return ratText(new(big.Rat).Neg(r))
		case 4:
			return ratText(new(big.Rat).Add(r, big.NewRat(1, 1000000)))
		}
	case string:
		switch rapid.IntRange(0, 3).Draw(t, "strperturb") {
		case 0:
			return x + rapid.SampledFrom([]string{"a", "é", "x", " "}).Draw(t, "suffix")
		case 1:
			if x != "" {
				_, sz := utf8.DecodeRuneInString(x)
				return x[sz:]
			}
		case 2:
			return strings.ToUpper(x)
		}
	case []any:
		switch rapid.IntRange(0, 3).Draw(t, "arrperturb") {
		case 0:
			return append(append([]any(nil), x...), Scalar(t))
		case 1:
			if len(x) > 0 {
				return append([]any(nil), x[:len(x)-1]...)
			}
		case 2:
			if len(x) > 0 {
				return append(append([]any(nil), x...), Clone(x[rapid.IntRange(0, len(x)-1).Draw(t, "dupidx")]))
			}
		}
	case map[string]any:
		out := map[string]any{}
		for k, w := range x {
			out[k] = w
		}
		switch rapid.IntRange(0, 2).Draw(t, "objperturb") {
		case 0:
			out[Name(t)] = Scalar(t)
			return out
		case 1:
			if len(x) > 0 {
				keys := SortedKeys(x)
				delete(out, keys[rapid.IntRange(0, len(keys)-1).Draw(t, "delkey")])
				return out
			}
		}
	}
	// change of kind
	switch rapid.IntRange(0, 3).Draw(t, "kindperturb") {
	case 0:
		return nil
	case 1:
		return Scalar(t)
	default:
		return Value(t, 4)
	}
}
