// Package gen holds the rapid generators shared by the checks: JSON values,
// draft-4 schemas, instances derived from a schema, names, patterns.
// Every random choice is a rapid draw.
package gen

import (
	"encoding/json"
	"strconv"
	"strings"

	"pgregory.net/rapid"
)

// Names is the small adversarial pool of member names shared by schemas and
// instances so that they collide often. It contains dotted names, the empty
// name, names that are suffixes of each other, names that look like indices,
// non-ASCII names and (a counted minority) "id" and "$schema".
var Names = []string{"a", "b", "c", "x", "xx", "a.b", "b.a", "", "0", "1", "é", "ab", "id", "$schema", "items", "x.x", "examples", "example", "default", "properties", "type", "100%", "%d", "%s%s", "IMPORTANT!x", long64 + "A", long64 + "B"}

// two names that share their first 64 bytes
const long64 = "n123456789012345678901234567890123456789012345678901234567890123"

// Strings is the pool of string values.
var Strings = []string{"", "a", "b", "ab", "abc", "A", "aB", "é", "日本", "é", "x", "aaa", "0", "1", "2020-01-01", "2020-13-45", "a b", "ü", "\U0001F600", "null", "true"}

// Patterns is the pool of patterns, all valid for Go regexp.
var Patterns = []string{"^a", "b$", "^[a-c]+$", ".", "^$", "x", "a|b", `^\p{L}+$`, "(?i)^A", `\d`, "^.{2,}$", "^.$", "^x*$", `^\S+$`, "é"}

// IntLiterals and DecLiterals are the boundary picks for numbers.
var IntLiterals = []string{"0", "1", "-1", "2", "3", "10", "100", "-100", "2147483647", "2147483648", "-2147483648", "4294967296", "1000000001", "1000000000", "999999999999999", "-999999999999999", "123456789012345"}
var DecLiterals = []string{"0.5", "1.5", "-0.5", "2.25", "0.1", "0.2", "0.3", "0.01", "0.07", "1.1", "3.3", "0.000001", "0.000003", "1000000000.5", "2.5", "-2.5", "7.5", "99999999.9999999", "0.75", "1e-6", "1.5e3"}

// Num draws a JSON number literal (≤15 significant digits, |v| < 2^53).
func Num(t *rapid.T) json.Number {
	switch rapid.IntRange(0, 9).Draw(t, "numkind") {
	case 0, 1, 2, 3:
		return json.Number(strconv.Itoa(rapid.IntRange(-3, 12).Draw(t, "smallint")))
	case 4, 5:
		return json.Number(rapid.SampledFrom(IntLiterals).Draw(t, "intlit"))
	case 6, 7:
		return json.Number(rapid.SampledFrom(DecLiterals).Draw(t, "declit"))
	case 8:
		// k * 10^-d with small k
		k := rapid.IntRange(-50, 50).Draw(t, "k")
		d := rapid.IntRange(1, 6).Draw(t, "d")
		return json.Number(scaled(int64(k), d))
	default:
		v := rapid.Int64Range(-999999999999999, 999999999999999).Draw(t, "bigint")
		return json.Number(strconv.FormatInt(v, 10))
	}
}

// scaled renders k * 10^-d as a plain decimal literal without trailing zeros.
func scaled(k int64, d int) string {
	neg := k < 0
	if neg {
		k = -k
	}
	s := strconv.FormatInt(k, 10)
	for len(s) <= d {
		s = "0" + s
	}
	s = s[:len(s)-d] + "." + s[len(s)-d:]
	s = strings.TrimRight(s, "0")
	s = strings.TrimSuffix(s, ".")
	if neg && s != "0" {
		s = "-" + s
	}
	return s
}

// PosNum draws a strictly positive number literal (for multipleOf).
func PosNum(t *rapid.T) json.Number {
	switch rapid.IntRange(0, 5).Draw(t, "posnumkind") {
	case 0, 1:
		return json.Number(strconv.Itoa(rapid.IntRange(1, 7).Draw(t, "smallpos")))
	case 2:
		return json.Number(rapid.SampledFrom([]string{"0.5", "0.1", "0.01", "0.25", "1.5", "0.000001", "0.3", "2.5", "0.2"}).Draw(t, "posdec"))
	case 3:
		return json.Number(rapid.SampledFrom([]string{"2", "3", "1000000000", "2147483648", "7", "100"}).Draw(t, "posint"))
	case 4:
		return json.Number(scaled(int64(rapid.IntRange(1, 50).Draw(t, "k")), rapid.IntRange(1, 6).Draw(t, "d")))
	default:
		return json.Number("1")
	}
}

// Str draws a string value.
func Str(t *rapid.T) string {
	if rapid.IntRange(0, 7).Draw(t, "strkind") == 0 {
		// composed string
		n := rapid.IntRange(0, 6).Draw(t, "strlen")
		var sb strings.Builder
		for i := 0; i < n; i++ {
			sb.WriteString(rapid.SampledFrom([]string{"a", "b", "c", "x", "é", "日", "A", "1", " ", "́"}).Draw(t, "ch"))
		}
		return sb.String()
	}
	return rapid.SampledFrom(Strings).Draw(t, "str")
}

// Name draws a member name.
func Name(t *rapid.T) string {
	// the first 8 names are drawn much more often so that collisions are frequent
	if rapid.IntRange(0, 3).Draw(t, "namebias") > 0 {
		return Names[rapid.IntRange(0, 5).Draw(t, "name")]
	}
	// the rest uniformly: SampledFrom would favour the first entries again, and the unusual names sit at the end
	return PickUniform(t, Names, "name")
}

// Scalar draws a scalar JSON value.
func Scalar(t *rapid.T) any {
	switch rapid.IntRange(0, 7).Draw(t, "scalarkind") {
	case 0:
		return nil
	case 1:
		return rapid.Bool().Draw(t, "bool")
	case 2, 3, 4:
		return Num(t)
	default:
		return Str(t)
	}
}

// Value draws an arbitrary JSON value with at most budget nodes.
func Value(t *rapid.T, budget int) any {
	v, _ := value(t, budget, 0)
	return v
}

func value(t *rapid.T, budget, depth int) (any, int) {
	if budget <= 1 || depth > 6 {
		return Scalar(t), 1
	}
	switch rapid.IntRange(0, 9).Draw(t, "valkind") {
	case 0, 1, 2:
		n := rapid.IntRange(0, 4).Draw(t, "arrlen")
		arr := make([]any, 0, n)
		used := 1
		for i := 0; i < n && used < budget; i++ {
			if i > 0 && rapid.IntRange(0, 5).Draw(t, "dupitem") == 0 {
				arr = append(arr, Clone(arr[rapid.IntRange(0, i-1).Draw(t, "dupidx")]))
				used++
				continue
			}
			v, u := value(t, (budget-used)/2+1, depth+1)
			arr = append(arr, v)
			used += u
		}
		return arr, used
	case 3, 4, 5:
		n := rapid.IntRange(0, 4).Draw(t, "objlen")
		obj := map[string]any{}
		used := 1
		for i := 0; i < n && used < budget; i++ {
			v, u := value(t, (budget-used)/2+1, depth+1)
			obj[Name(t)] = v
			used += u
		}
		return obj, used
	default:
		return Scalar(t), 1
	}
}

// Clone deep-copies a decoded JSON value.
func Clone(v any) any {
	switch x := v.(type) {
	case []any:
		out := make([]any, len(x))
		for i := range x {
			out[i] = Clone(x[i])
		}
		return out
	case map[string]any:
		out := make(map[string]any, len(x))
		for k, w := range x {
			out[k] = Clone(w)
		}
		return out
	default:
		return v
	}
}

// Text renders a decoded JSON value (json.Number literals verbatim, keys sorted).
func Text(v any) string {
	var sb strings.Builder
	enc := json.NewEncoder(&sb)
	enc.SetEscapeHTML(false)
	if err := enc.Encode(v); err != nil {
		panic(err)
	}
	return strings.TrimSuffix(sb.String(), "\n")
}
