// Package scribble overwrites an object at the instant the library hands it
// back to a pool (through the verif redeem hook). By the library's own
// ownership rule nobody may read a redeemed object, every constructor assigns
// every field and BorrowResult clears, so on a correct tree scribbling is
// unobservable; anything that becomes observable is a use-after-redeem or a
// field a constructor forgot.
//
// Only the object's own fields are assigned; nothing is ever written through a
// pointer, map or slice the object may share with caller data — except the
// backing arrays of Result.Errors / Result.Warnings, which the result owns.
package scribble

import (
	"reflect"
	"unsafe"
)

// PoisonText marks scribbled strings.
const PoisonText = "\x00POISONED: this object had been handed back to the pool"

// PoisonError is stored in scribbled error lists.
type PoisonError struct{}

func (PoisonError) Error() string {
	return "POISONED: this result had been handed back to the pool when it was read"
}

var errorType = reflect.TypeOf((*error)(nil)).Elem()

// Scribble overwrites every field of the struct obj points to. With poison
// false everything becomes the zero value ("empty" polarity); with poison true
// strings, numbers, booleans and error lists get recognisable garbage.
func Scribble(obj any, poison bool) {
	v := reflect.ValueOf(obj)
	if !v.IsValid() || v.Kind() != reflect.Ptr || v.IsNil() {
		return
	}
	e := v.Elem()
	if e.Kind() != reflect.Struct {
		return
	}
	scribbleStruct(e, poison)
}

func scribbleStruct(s reflect.Value, poison bool) {
	for i := 0; i < s.NumField(); i++ {
		f := s.Field(i)
		if !f.CanAddr() {
			continue
		}
		// make unexported fields settable
		f = reflect.NewAt(f.Type(), unsafe.Pointer(f.UnsafeAddr())).Elem()
		scribbleValue(f, poison)
	}
}

func scribbleValue(f reflect.Value, poison bool) {
	switch f.Kind() {
	case reflect.String:
		if poison {
			f.SetString(PoisonText)
		} else {
			f.SetString("")
		}
	case reflect.Bool:
		f.SetBool(poison)
	case reflect.Int, reflect.Int8, reflect.Int16, reflect.Int32, reflect.Int64:
		if poison {
			f.SetInt(0x5a5a5a)
		} else {
			f.SetInt(0)
		}
	case reflect.Uint, reflect.Uint8, reflect.Uint16, reflect.Uint32, reflect.Uint64, reflect.Uintptr:
		if poison {
			f.SetUint(0x5a)
		} else {
			f.SetUint(0)
		}
	case reflect.Float32, reflect.Float64:
		if poison {
			f.SetFloat(-12345.678)
		} else {
			f.SetFloat(0)
		}
	case reflect.Ptr, reflect.Map, reflect.Interface, reflect.Func, reflect.Chan, reflect.UnsafePointer:
		f.Set(reflect.Zero(f.Type()))
	case reflect.Slice:
		if f.Type().Elem() == errorType {
			// the result owns the backing array of its error lists: overwrite it as well
			if f.Cap() > 0 {
				full := f.Slice(0, f.Cap())
				for i := 0; i < full.Len(); i++ {
					if poison {
						full.Index(i).Set(reflect.ValueOf(PoisonError{}))
					} else {
						full.Index(i).Set(reflect.Zero(errorType))
					}
				}
			}
			if poison {
				one := reflect.MakeSlice(f.Type(), 1, 1)
				one.Index(0).Set(reflect.ValueOf(PoisonError{}))
				f.Set(one)
				return
			}
		}
		f.Set(reflect.Zero(f.Type()))
	case reflect.Struct:
		scribbleStruct(f, poison)
	case reflect.Array:
		for i := 0; i < f.Len(); i++ {
			scribbleValue(f.Index(i), poison)
		}
	}
}
